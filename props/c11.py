"""C11 - dimensional collapse is detected per definition, applied exactly, reported once.

Two halves.

(1) Detectors, engine E3 (sections A, S, W, P, K).  Real ``mystic.monitors.Monitor``
    objects are filled with EVERY history of each length over the 3-value alphabet
    {0, 1e-5, 1} and handed to the real ``mystic.collapse`` detectors for every
    tolerance / window / target (offset) / mask of the alphabet.  Oracle:
    ``ref/c11_detect.py`` (the documented inequality over the last N entries, minus
    the mask; plain Python).  For every case also: the answer comes back in the
    format the mask selects, and ``detector(mon, mask = mask U detector(mon, mask))``
    is empty (a detector fed its own output reports nothing new) - in every format.
    K: ``collapse_cost`` is judged only on consequences its docstring states without
    ambiguity (see ref.cost_facts) and on the same idempotence.

(2) Solvers, engine E1 (section X).  Real NM / Powell / DE / DE2 solvers on costs
    with a flat direction (``flat``: coordinate 0 ignored), a tied pair
    (``c11_tied``), four / five coordinates pulled together (``c11_tied4``; the
    ``chain4`` / ``chain5`` starts make the collapsing pairs form groups that a later
    pair joins) and a (2,2) product measure (``c11_measure22``, generation monitor
    built with ``npts``), with ``Or/And/When`` trees of ChangeOverGeneration,
    CollapseAt, CollapseAs, CollapseWeight and CollapsePosition (initial masks in
    every accepted format) as termination, driven by
      * every op sequence to a depth over {Step, StepTo(stop), Collapse, Solve},
      * structured long histories ((StepTo, Collapse)^k Solve; Step^k Collapse Step^m
        Collapse Solve; Collapse twice in a row; Solve Collapse Solve),
      * ``Solve`` under every generation limit of a range (every generation at which
        the run may legitimately stop, so the final solution is seen at every age).
      * a collapse condition and an ordinary stop (ChangeOverGeneration, VTR tuned to the
        run's own cost history) of one Or / And tree made to fire at every pair of
        generations of a small square, so that they coincide at one generation, the
        collapse comes first, or the stop comes first (``shard_coincide``).
    A spy on ``solver.Collapse`` records what each collapse applied, the termination
    (state, And/Or skeleton) before/after and the position in the cost's call log.
    Oracle: every later logged cost call and the final solution satisfy the applied
    relation exactly (x[i] == target; x[i] constant for target=None; x[j] == x[i];
    weight == 0.0; pos_i == pos_j); ``state(termination)`` masks grow by exactly
    what was applied and nothing else about the termination changes; nothing
    already applied or masked is reported again (Collapse() results and stop
    messages); nothing raises; Solve returns inside the evaluation horizon and a
    horizon on the number of Collapse() calls.  D: the same execution twice gives
    bit-identical logs (ownership of the randomness).

(3) Section T: ONE termination object used by TWO solvers with different start points
    (all interleavings of Step on A / B to a depth after several prefixes: nothing, two
    steps each, A collapsed and B given the rebuilt object, a fresh B reusing the object
    A ran with).  Every stop message, ``Collapsed(info=True)`` and ``Collapse()`` result
    of a solver must be what the reference detector gives on THAT solver's own step
    monitor - a condition may not answer from state kept inside the termination object.
"""
import itertools, traceback, json
import numpy as np
from mc import solverlab
from mc import c11_lab as L
from mc.runner import Tally, digest, jsonable
from ref import c11_detect as ref

V = (0.0, 1e-5, 1.0)
TOLS = (0.0, 1e-4)
WINDOWS = (1, 2, 3, 9)


def _ct():
    import mystic.collapse as ct
    return ct


def _mm():
    import mystic.monitors as mm
    return mm


def make_monitor(hist, npts=None, ys=None):
    mm = _mm()
    m = mm.Monitor(npts=tuple(npts)) if npts is not None else mm.Monitor()
    for k, x in enumerate(hist):
        m(list(x), float(k) if ys is None else ys[k])
    return m


def histories(vectors, length, prefix=()):
    """every history of exactly `length` entries that starts with `prefix`"""
    prefix = tuple(tuple(p) for p in prefix)
    for h in itertools.product(list(vectors), repeat=length - len(prefix)):
        yield prefix + h


def _viol(T, sig, case, detail):
    """T.violate with lazily built case / detail (a mutant can make millions of cases fail)"""
    key = json.dumps(jsonable(sig), sort_keys=True)
    v = T.violations.get(key)
    if v is not None:
        v['count'] += 1
        T.count('violations_raw')
        return
    T.violate(sig, case() if callable(case) else case, detail() if callable(detail) else detail)


def _err(e):
    return '%s: %s' % (type(e).__name__, str(e)[:160])


def _show(case):
    return ', '.join('%s=%r' % (k, v) for k, v in case.items() if k != 'kind')


# ====================================================================== A: collapse_at
def at_targets(dim):
    return [None, 0.0, [1.0, 0.0, 1e-5][:dim]]


def at_masks(dim, level):
    """level 3: None + every subset of indices; lower levels: a covering selection"""
    if level >= 3:
        return [None] + [set(s) for s in ref.subsets(range(dim))]
    if level == 2:
        return [None, set(), {0}, {dim - 1, 0}]
    if level == 1:
        return [None, {dim - 1}]
    return [None]


def _tname(t):
    return 'None' if t is None else ('list' if isinstance(t, list) else 'scalar')


def at_case(T, mon, hist, target, tol, gens, mask, base=None):
    ct = _ct()
    if base is None:
        base = ref.at_unmasked(hist, target, tol, gens)
    want = (base - mask) if mask else base

    def case():
        return {'kind': 'at', 'hist': [list(x) for x in hist], 'target': target, 'tolerance': tol, 'generations': gens,
                'mask': None if mask is None else sorted(mask)}

    def sig(**kw):
        d = {'half': 'detector', 'detector': 'collapse_at', 'target': _tname(target),
             'mask': 'None' if mask is None else ('empty' if not mask else 'indices')}
        d.update(kw)
        return d
    try:
        got = ct.collapse_at(mon, target=target, tolerance=tol, generations=gens, mask=None if mask is None else set(mask))
    except Exception as e:
        err = _err(e)
        _viol(T, sig(clause='raised', error=type(e).__name__), case,
              lambda: 'collapse_at(%s) raised %s; the definition gives %s' % (_show(case()), err, sorted(want)))
        return
    T.count('transitions')
    ok = type(got) is set
    try:
        g = set(int(i) for i in got)
    except Exception:
        g, ok = None, False
    if not ok or g != want:
        _viol(T, sig(clause='definition', window='short' if gens < len(hist) else 'covers',
                     dir='extra' if (g is not None and g - want) else 'missing'), case,
              lambda: 'collapse_at(%s) = %r, the documented definition over the last %d entries minus the mask gives %s'
              % (_show(case()), got, gens, sorted(want)))
        return
    if got:
        # idempotence: the detector's own output, added to the mask, leaves nothing
        m2 = set(got) if mask is None else (set(mask) | set(got))
        try:
            again = ct.collapse_at(mon, target=target, tolerance=tol, generations=gens, mask=m2)
        except Exception as e:
            again = _err(e)
        T.count('transitions')
        if again != set():
            _viol(T, sig(clause='idempotence'), case,
                  lambda: 'collapse_at(%s) = %r; with that output added to the mask it still reports %r' % (_show(case()), got, again))


def shard_at(item):
    dim, length, prefix, level = item
    T = Tally()
    vecs = list(itertools.product(V, repeat=dim))
    masks = at_masks(dim, level)
    targets = at_targets(dim)
    hist = pick = None
    for n, hist in enumerate(histories(vecs, length, prefix)):
        if n == 137:
            pick = hist
        mon = make_monitor(hist)
        for target in targets:
            tn = _tname(target)
            for tol in TOLS:
                for gens in WINDOWS:
                    base = ref.at_unmasked(hist, target, tol, gens)
                    T.hist('A:collapsed_count', len(base))
                    if base and len(base) < dim:
                        T.nontriv(('at', hist[-gens:], tn, tol))
                    T.state(('at', dim, hist[-gens:], tn, tol))
                    for mask in masks:
                        T.count('traces')
                        at_case(T, mon, hist, target, tol, gens, mask, base)
    T.hist('A:shards(dim,length,mask_level)', (dim, length, level))
    if hist is not None and (dim, length) == (2, 3):
        T.sample({'detector': 'collapse_at', 'hist': [list(x) for x in (pick or hist)], 'target': targets[-1], 'tolerance': TOLS[-1],
                  'generations': 2, 'mask': [0]}, 1)
    return T


# ====================================================================== S: collapse_as
def as_masks(dim, level):
    """level 3: every subset of indices, every subset of pairs (both orientations), every index+pair mix;
    level 2: a covering selection; level 1: None + one mixed mask; level 0: None"""
    out = [None]
    if dim < 2:
        return out + ([set(), {0}] if level else [])
    pairs = list(itertools.combinations(range(dim), 2))
    if level >= 3:
        for s in ref.subsets(range(dim)):
            out.append(set(s))
        for s in ref.subsets(pairs):
            if s:
                out.append(set(s))
                out.append(set((j, i) for i, j in s))
        for i in range(dim):
            for p in pairs:
                out.append({i, p})
                out.append({i, (p[1], p[0])})
    elif level == 2:
        out += [set(), {dim - 1}, {pairs[-1]}, {(pairs[0][1], pairs[0][0]), dim - 1}]
    elif level == 1:
        out += [{(pairs[0][1], pairs[0][0]), dim - 1}]
    return out


def _as_mask_kind(mask):
    if mask is None:
        return 'None'
    if not mask:
        return 'empty'
    t = any(isinstance(m, tuple) for m in mask)
    i = any(not isinstance(m, tuple) for m in mask)
    return 'mixed' if (t and i) else ('pairs' if t else 'indices')


def _canon_pairs(got):
    return set(tuple(sorted((int(p[0]), int(p[1])))) for p in got)


def as_case(T, mon, hist, offset, tol, gens, mask, base=None):
    ct = _ct()
    if base is None:
        base = ref.as_unmasked(hist, offset, tol, gens)
    want = set(p for p in base if not ref.as_mask_hits(mask, p)) if mask else base

    def case():
        return {'kind': 'as', 'hist': [list(x) for x in hist], 'offset': offset, 'tolerance': tol, 'generations': gens,
                'mask': None if mask is None else sorted([list(m) if isinstance(m, tuple) else m for m in mask], key=repr)}

    def sig(**kw):
        d = {'half': 'detector', 'detector': 'collapse_as', 'offset': offset, 'mask': _as_mask_kind(mask)}
        d.update(kw)
        return d
    try:
        got = ct.collapse_as(mon, offset=offset, tolerance=tol, generations=gens, mask=None if mask is None else set(mask))
    except Exception as e:
        err = _err(e)
        _viol(T, sig(clause='raised', error=type(e).__name__, dim='1' if len(hist[0]) == 1 else 'n'), case,
              lambda: 'collapse_as(%s) raised %s; the definition gives %s' % (_show(case()), err, sorted(want)))
        return
    T.count('transitions')
    ok = type(got) is set
    try:
        g = _canon_pairs(got)
        ok = ok and len(g) == len(got)
    except Exception:
        g, ok = None, False
    if not ok or g != want:
        _viol(T, sig(clause='definition', window='short' if gens < len(hist) else 'covers',
                     dir='extra' if (g is not None and g - want) else 'missing'), case,
              lambda: 'collapse_as(%s) = %r, the documented definition over the last %d entries minus the mask gives %s'
              % (_show(case()), got, gens, sorted(want)))
        return
    if got:
        m2 = set(got) if mask is None else (set(mask) | set(got))
        try:
            again = ct.collapse_as(mon, offset=offset, tolerance=tol, generations=gens, mask=m2)
        except Exception as e:
            again = _err(e)
        T.count('transitions')
        if again != set():
            _viol(T, sig(clause='idempotence'), case,
                  lambda: 'collapse_as(%s) = %r; with that output added to the mask it still reports %r' % (_show(case()), got, again))


def shard_as(item):
    dim, length, prefix, level = item
    T = Tally()
    vecs = list(itertools.product(V, repeat=dim))
    masks = as_masks(dim, level)
    npairs = dim * (dim - 1) // 2
    hist = pick = None
    for n, hist in enumerate(histories(vecs, length, prefix)):
        if n == 137:
            pick = hist
        mon = make_monitor(hist)
        for offset in (False, True):
            for tol in TOLS:
                for gens in WINDOWS:
                    base = ref.as_unmasked(hist, offset, tol, gens)
                    T.hist('S:collapsed_count', len(base))
                    if base and len(base) < npairs:
                        T.nontriv(('as', hist[-gens:], offset, tol))
                    T.state(('as', dim, hist[-gens:], offset, tol))
                    for mask in masks:
                        T.count('traces')
                        as_case(T, mon, hist, offset, tol, gens, mask, base)
    T.hist('S:shards(dim,length,mask_level)', (dim, length, level))
    if hist is not None and (dim, length) == (2, 3):
        T.sample({'detector': 'collapse_as', 'hist': [list(x) for x in (pick or hist)], 'offset': True, 'tolerance': TOLS[-1],
                  'generations': 2, 'mask': [[1, 0]]}, 1)
    return T


# ====================================================================== W / P: measure detectors
def measure_vectors(npts, which, background):
    """every parameter vector whose weights (which='w') or positions (which='p') range over V;
    the other half of every measure is the constant `background`"""
    lay = ref.layout(npts)
    idx = [i for (wi, pi) in lay for i in (wi if which == 'w' else pi)]
    n = ref.nparams(npts)
    out = []
    for vals in itertools.product(V, repeat=len(idx)):
        x = [background] * n
        for i, v in zip(idx, vals):
            x[i] = v
        out.append(tuple(x))
    return out


def measure_masks(npts, which, level):
    """(format, items) pairs.  level 3: None, every subset of the universe (positions: both pair
    orientations) in all three accepted formats, plus the list spelling of 'where' and a dict with an
    empty entry (the empty 'where' mask is spelled ``()``); level 2: a covering selection in all three formats;
    level 1: one mask per format; level 0: None"""
    uni = ref.weight_universe(npts) if which == 'w' else ref.position_universe(npts, reversed_too=(level >= 3))
    out = [(None, None)]
    if level == 0:
        return out
    if level >= 3:
        subs = list(ref.subsets(uni))
    elif level == 2:
        subs = [[], [uni[0]], [uni[-1]], list(uni)]
        if which == 'p':
            m, (a, b) = uni[-1]
            subs.append([(m, (b, a))])
        seen, uniq = set(), []
        for s in subs:
            if repr(s) not in seen:
                seen.add(repr(s)); uniq.append(s)
        subs = uniq
    else:
        subs = [[uni[-1]]]
    for s in subs:
        for f in ref.FORMATS:
            out.append((f, s))
    if level >= 3:
        out.append(('wherelist', [uni[0]]))
        out.append(('dict+empty', [uni[0]]))
    return out


def _build_mask(fmt, items):
    if fmt is None:
        return None
    if fmt == 'dict+empty':
        d = ref.build_mask('dict', items)
        d.setdefault(1 if 1 not in d else 0, set())
        return d
    if fmt in ('where', 'wherelist') and not items:
        return () if fmt == 'where' else []
    return ref.build_mask(fmt, [(m, tuple(v) if isinstance(v, (list, tuple)) else v) for m, v in items])


def _fmt_family(fmt):
    if fmt is None or fmt.startswith('dict'):
        return 'dict'
    if fmt in ('where', 'wherelist'):
        return 'where'
    return fmt


def _sorted(s):
    return sorted([(m, sorted(v) if isinstance(v, frozenset) else v) for m, v in s])


def measure_case(T, which, mon, hist, npts, tol, gens, fmt, items, base=None):
    ct = _ct()
    det = ct.collapse_weight if which == 'w' else ct.collapse_position
    name = det.__name__
    canon = ref.canon_weight if which == 'w' else ref.canon_position
    if base is None:
        base = (ref.weight_unmasked if which == 'w' else ref.position_unmasked)(hist, npts, tol, gens)
    mask = _build_mask(fmt, items)
    want = (base - canon(mask)) if items else base

    def case():
        return {'kind': which, 'npts': list(npts), 'hist': [list(x) for x in hist], 'tolerance': tol, 'generations': gens,
                'format': fmt, 'mask_items': None if items is None else [[m, list(v) if isinstance(v, tuple) else v] for m, v in items]}

    def sig(**kw):
        d = {'half': 'detector', 'detector': name, 'format': fmt or 'None', 'npts': 'ragged' if len(set(npts)) > 1 else 'uniform',
             'mask': 'None' if items is None else ('empty' if not items else 'items')}
        d.update(kw)
        return d

    def call():
        return '%s(npts=%s, hist=%s, tolerance=%r, generations=%r, mask=%r)' % (
            name, tuple(npts), [list(x) for x in hist], tol, gens, mask)
    try:
        got = det(mon, tolerance=tol, generations=gens, mask=_build_mask(fmt, items))
    except Exception as e:
        err = _err(e)
        _viol(T, {'half': 'detector', 'detector': name, 'clause': 'raised', 'error': type(e).__name__,
                  'npts': 'ragged' if len(set(npts)) > 1 else 'uniform'}, case,
              lambda: '%s raised %s; the definition gives %s' % (call(), err, _sorted(want)))
        return
    T.count('transitions')
    fam = _fmt_family(fmt)
    try:
        g = canon(got)
        okfmt = (ref.fmt_of(got) == fam) if fam != 'where' else isinstance(got, (tuple, list))
        if type(got) is dict and any(not v for v in got.values()):
            okfmt = False
    except Exception:
        g, okfmt = None, False
    if g != want:
        _viol(T, sig(clause='definition', window='short' if gens < len(hist) else 'covers',
                     dir='extra' if (g is not None and g - want) else 'missing'), case,
              lambda: '%s = %r, the documented definition over the last %d entries minus the mask gives %s'
              % (call(), got, gens, _sorted(want)))
        return
    if not okfmt:
        _viol(T, sig(clause='format'), case,
              lambda: '%s answered %r: not in the format of the mask (%s)' % (call(), got, fam))
        return
    if g:
        m2 = ref.union_mask(_build_mask(fmt, items), got)
        try:
            again = det(mon, tolerance=tol, generations=gens, mask=m2)
            empty = not canon(again)
        except Exception as e:
            again, empty = _err(e), False
        T.count('transitions')
        if not empty:
            _viol(T, sig(clause='idempotence'), case,
                  lambda: '%s = %r; with that output added to the mask (%r) it still reports %r' % (call(), got, m2, again))


def shard_measure(item):
    which, npts, length, prefix, level, background = item
    T = Tally()
    npts = tuple(npts)
    vecs = measure_vectors(npts, which, background)
    masks = measure_masks(npts, which, level)
    uni = len(ref.weight_universe(npts) if which == 'w' else ref.position_universe(npts))
    sec = 'W' if which == 'w' else 'P'
    unmasked = ref.weight_unmasked if which == 'w' else ref.position_unmasked
    hist = pick = None
    for n, hist in enumerate(histories(vecs, length, [vecs[i] for i in prefix])):
        if n == 40:
            pick = hist
        mon = make_monitor(hist, npts)
        for tol in TOLS:
            for gens in WINDOWS:
                base = unmasked(hist, npts, tol, gens)
                T.hist('%s:collapsed_count' % sec, len(base))
                if base and len(base) < uni:
                    T.nontriv((which, npts, hist[-gens:], tol))
                T.state((which, npts, hist[-gens:], tol))
                for fmt, items in masks:
                    T.count('traces')
                    measure_case(T, which, mon, hist, npts, tol, gens, fmt, items, base)
    T.hist('%s:shards(npts,length,mask_level,background)' % sec, (npts, length, level, background))
    T.hist('%s:mask_formats' % sec, sorted(set(f or 'None' for f, s in masks)))
    if hist is not None and (npts, length, background) == ((2, 2), 1, 1.0):
        T.sample({'detector': 'collapse_weight' if which == 'w' else 'collapse_position', 'npts': list(npts),
                  'hist': [list(x) for x in (pick or hist)], 'tolerance': TOLS[-1], 'generations': 2,
                  'format': masks[-2][0], 'mask_items': masks[-2][1]}, 1)
    return T


# ====================================================================== K: collapse_cost (weak)
COST_VALUES = (0.0, 0.5, 1.0, 2.0)


def cost_case(T, xs, ys, limit, samples, clip):
    ct = _ct()
    mon = make_monitor(xs, ys=list(ys))
    case = {'kind': 'cost', 'xs': [list(x) for x in xs], 'ys': list(ys), 'limit': limit, 'samples': samples, 'clip': clip}
    sig = {'half': 'detector', 'detector': 'collapse_cost', 'clip': clip}
    call = 'collapse_cost(x=%s, y=%s, clip=%r, limit=%r, samples=%r)' % (case['xs'], case['ys'], clip, limit, samples)
    try:
        r = ct.collapse_cost(mon, clip=clip, limit=limit, samples=samples)
    except Exception as e:
        T.violate(dict(sig, clause='raised', error=type(e).__name__), case, '%s raised %s' % (call, _err(e)))
        return
    T.count('transitions')
    runs, good = ref.cost_facts(xs, ys, limit, samples)
    T.hist('K:result', 'collapse' if r else 'none')
    for p, verdict in runs.items():
        T.hist('K:documented', {True: 'collapse', False: 'no_collapse', None: 'boundary_not_judged'}[verdict])
        if verdict is False and p in r:
            T.violate(dict(sig, clause='definition', dir='extra'), case,
                      '%s = %r: parameter %d has no %d consecutive samples with cost - min >= limit, yet bounds are reported' % (call, r, p, samples))
        if verdict is True and p not in r and not clip:
            T.violate(dict(sig, clause='definition', dir='missing'), case,
                      '%s = %r: parameter %d has %d consecutive samples with cost - min > limit, no bounds reported' % (call, r, p, samples))
        if p in r:
            cut = [g for g in good[p] if not any(lo <= g <= hi for lo, hi in r[p])]
            if cut and not clip:
                T.violate(dict(sig, clause='definition', dir='good_sample_cut'), case,
                          '%s = %r: the sample(s) at x[%d] = %r have cost - min < limit but lie outside every reported interval' % (call, r, p, cut))
            elif cut:
                T.hist('K:clip_cuts_good_sample(not_judged)', 'yes')
    if r:
        try:
            again = ct.collapse_cost(mon, clip=clip, limit=limit, samples=samples, mask=r)
        except Exception as e:
            again = _err(e)
        T.count('transitions')
        if again != {}:
            T.violate(dict(sig, clause='idempotence'), case, '%s = %r; given that output as mask it still reports %r' % (call, r, again))


def shard_cost(item):
    n, dim, part, nparts = item[:4]
    values = item[4] if len(item) > 4 else COST_VALUES
    T = Tally()
    if dim == 1:
        layouts = [[(float(k),) for k in range(n)], [(float(n - 1 - k),) for k in range(n)]]
    else:
        layouts = [[(float(k), float(p[k])) for k in range(n)] for p in itertools.permutations(range(n))]
    layouts = layouts[part::nparts]
    for xs in layouts:
        for ys in itertools.product(values, repeat=n):
            for limit in (0.5, 1.0):
                for samples in (1, 2, 3):
                    for clip in (False, True):
                        T.count('traces')
                        cost_case(T, xs, ys, limit, samples, clip)
                        T.state(('cost', dim, tuple(xs), ys, limit, samples, clip))
            if len(set(ys)) > 1:
                T.nontriv(('cost', tuple(xs), ys))
    T.sample({'detector': 'collapse_cost', 'xs': [list(x) for x in layouts[-1]], 'ys': list(COST_VALUES[:n]) + [0.0] * max(0, n - 4),
              'limit': 0.5, 'samples': 2, 'clip': False}, 1)
    return T


# ====================================================================== X: solvers
T4, T6, T10 = 2.0 ** -4, 2.0 ** -6, 2.0 ** -10
COG = ['COG', 1e-6, 5]
LIST_TARGET = [0.0, 1.0, 1.0]
TERMS = {
    'at_none': ['Or', COG, ['At', None, T10, 2, None]],
    'at_none_g1': ['Or', COG, ['At', None, T4, 1, None]],
    'at_none_exact': ['Or', COG, ['At', None, 0.0, 2, None]],
    'at_none_masked': ['Or', COG, ['At', None, T10, 2, [1]]],
    'at_0': ['Or', COG, ['At', 0.0, T4, 2, None]],
    'at_1': ['Or', COG, ['At', 1.0, 0.25, 2, []]],
    'at_list': ['Or', COG, ['At', LIST_TARGET, T4, 2, None]],
    'as': ['Or', COG, ['As', False, T4, 2, None]],
    'as_wide': ['Or', COG, ['As', False, 0.5, 1, None]],
    'as_masked': ['Or', COG, ['As', False, 0.5, 1, [[1, 0], 2]]],
    'as_g2': ['Or', COG, ['As', False, 0.125, 2, None]],
    'as_chain': ['Or', COG, ['As', False, 0.375, 1, None]],
    'as_offset': ['Or', COG, ['As', True, T4, 2, None]],
    'at0_as': ['Or', COG, ['At', 0.0, T4, 2, None], ['As', False, T4, 2, None]],
    'and': ['Or', COG, ['And', ['At', None, T6, 2, None], ['As', False, T4, 2, None]]],
    'nested_or': ['Or', ['Or', ['At', 0.0, T4, 2, None], ['As', False, T4, 2, None]], COG],
    'mixed_tol': ['Or', COG, ['At', 0.0, T6, 2, None], ['As', False, 0.25, 3, None]],
    'no_stop': ['Or', ['At', None, T10, 2, None], ['As', False, T4, 2, None]],
    'and_stop': ['And', COG, ['At', None, T4, 2, None]],
    'when_or': ['Or', COG, ['When', ['Or', ['At', None, T6, 2, None], ['As', False, T4, 2, None]]]],
    'and_single': ['Or', COG, ['And', ['Or', ['At', None, T10, 2, None], ['As', False, T4, 2, None]]]],
}
COG8 = ['COG', 1e-8, 5]
MTERMS = {
    'w': ['Or', COG8, ['W', T4, 2, None]],
    'p': ['Or', COG8, ['P', T4, 2, None]],
    'wp': ['Or', COG8, ['W', T4, 2, None], ['P', T4, 2, None]],
    'wp_and': ['Or', COG8, ['And', ['W', T4, 2, None], ['P', T4, 2, None]]],
    'w_dictmask': ['Or', COG8, ['W', T4, 2, ['dict', [[0, 0], [1, 1]]]]],   # shares measure 0 with the weight that collapses
    'p_dictmask': ['Or', COG8, ['P', T4, 2, ['dict', [[0, [1, 0]]]]]],
    'w_set': ['Or', COG8, ['W', T4, 2, ['set', []]]],
    'w_set1': ['Or', COG8, ['W', T4, 2, ['set', [[1, 1]]]]],
    'w_where': ['Or', COG8, ['W', T4, 2, ['where', []]]],
    'p_set': ['Or', COG8, ['P', T4, 2, ['set', []]]],
    'p_where1': ['Or', COG8, ['P', T4, 2, ['where', [[0, [0, 1]]]]]],
}
TERMS.update(MTERMS)
TIED3_QUICK = ['at_none', 'at_0', 'at_list', 'as_wide', 'as_masked', 'at0_as', 'and', 'mixed_tol', 'no_stop']
T4TERMS = ['as_wide', 'as_g2', 'at0_as', 'as', 'and', 'no_stop', 'mixed_tol']     # the terminations used with the 4-parameter setup
QUICK_MTERMS = ['w', 'p', 'wp', 'w_dictmask', 'w_set', 'p_where1']
QUICK_TERMS = ['at_none', 'at_none_g1', 'at_none_masked', 'at_0', 'at_1', 'at_list', 'when_or', 'and_single', 'as_wide', 'as_masked', 'as_offset',
               'at0_as', 'and', 'mixed_tol', 'no_stop']
SETUPS = {
    'flat3': {'cost': 'flat', 'dim': 3, 'x0': [2.0 ** -5, 0.5, 0.75]},
    'tied3': {'cost': 'c11_tied', 'dim': 3, 'x0': [2.0 ** -5, 0.5, 0.75]},
    'flat2': {'cost': 'flat', 'dim': 2, 'x0': [2.0 ** -5, 0.5]},
    # four coordinates pulled together: every pair can collapse, in groups that join later
    'tied4': {'cost': 'c11_tied4', 'dim': 4, 'x0': [2.0 ** -5, 0.25, 0.375, 0.46875]},
    # a chain 0-1-3-2 of neighbours 0.3125 apart: the pairs (0,1), (2,3) form two groups that the pair (1,3) joins later
    'chain4': {'cost': 'c11_tied4', 'dim': 4, 'x0': [0.0, 0.3125, 0.9375, 0.625]},
    # neighbours 0.3125 apart in the order 0=1, 4, 2, (3 far away): the collapsing pairs are (0,1), (2,4), (0,4), (1,4) -
    # two groups that a later pair joins (found by a search over all 5-point geometries on a grid)
    'chain5': {'cost': 'c11_tied4', 'dim': 5, 'x0': [0.0, 0.0, 0.625, 1.25, 0.3125]},
    # a (2,2) product measure: weight (0,1) starts at 0, the positions of measure 1 start 2**-7 apart
    'meas22': {'cost': 'c11_measure22', 'dim': 8, 'npts': [2, 2], 'x0': [1.0, 0.0, 0.75, 0.25, 0.5, 0.5, 0.5, 0.5 + 2.0 ** -7]},
}
OPS = [['Step'], ['StepTo', 40], ['Collapse'], ['Solve']]
STOPS = (2, 24)     # Solve under every generation limit in this range


def structured(full=True):
    out = []
    for k in range(0, 5 if full else 4):
        out.append([['StepTo', 40], ['Collapse']] * k + [['Solve']])
    for k in ((2, 3, 4, 6) if full else (2, 3, 6)):
        for m in ((0, 1, 3) if full else (0, 2)):
            out.append([['Step']] * k + [['Collapse']] + [['Step']] * m + [['Collapse'], ['Solve']])
    out.append([['StepTo', 40], ['Collapse'], ['Collapse'], ['StepTo', 40], ['Collapse'], ['StepTo', 200]])
    out.append([['Solve'], ['Collapse'], ['Solve']])
    return out


def solver_cfg(solver, setup, term, seed, init='point'):
    cfg = {'solver': solver, 'seed': seed, 'term': term, 'term11': TERMS[term], 'setup': setup,
           'limits': [40, 400] if term == 'no_stop' else [120, 1500],
           'horizon': 4000, 'init': init, 'initbox': 'unit', 'npop': 4}
    cfg.update(SETUPS[setup])
    return cfg


def _term_targets(spec):
    return sorted(set(_tname(l[1]) for l in L.leaves(spec) if l[0] == 'At'))


def _term_formats(spec):
    return sorted(set(('dict' if l[3] is None else l[3][0]) for l in L.leaves(spec) if l[0] in ('W', 'P')))


class Judge(object):
    """consumes the lab's observations after every operation"""

    def __init__(self, lab):
        self.lab = lab
        self.nev = 0
        self.nlog = 0
        self.rels = []
        self.applied = {}
        self.start = L.collapse_state(lab.solver._termination)
        self.stats = {'collapses': 0, 'points_checked': 0, 'final_checked': 0}
        self.kinds = []

    # ---- relations
    def _add_relations(self, ev, kind, kw, items):
        for it in sorted(items, key=repr):
            if kind == 'CollapseAt':
                t = kw.get('target')
                tn = _tname(t)
                tv = None if t is None else (t[it] if isinstance(t, list) else t)
                self.rels.append({'rel': 'at_' + tn.lower(), 'i': it, 'target': tv, 'start': ev.nlog, 'value': tv, 'best_then': ev.best[it]})
                self.kinds.append('at_' + tn.lower())
            elif kind == 'CollapseAs':
                i, j = it
                off = bool(kw.get('offset'))
                self.rels.append({'rel': 'as_offset' if off else 'as', 'i': i, 'j': j, 'start': ev.nlog,
                                  'gap_then': abs(ev.best[j] - ev.best[i]), 'seen': False})
                self.kinds.append('as_offset' if off else 'as')
            elif kind == 'CollapseWeight':
                m, k = it
                i = ref.layout(self.lab.cfg['npts'])[m][0][k]
                self.rels.append({'rel': 'weight', 'i': i, 'value': 0.0, 'start': ev.nlog})
                self.kinds.append('weight')
            elif kind == 'CollapsePosition':
                m, pair = it
                a, b = sorted(pair)
                pos = ref.layout(self.lab.cfg['npts'])[m][1]
                self.rels.append({'rel': 'position', 'i': pos[a], 'j': pos[b], 'start': ev.nlog})
                self.kinds.append('position')

    def _conflicts(self, r):
        """the applied collapses of the other family (pin a parameter / tie two parameters) that touch a parameter of r"""
        def fam(q):
            return 'fix' if (q['rel'].startswith('at_') or q['rel'] == 'weight') else 'tie'
        mine = set(v for v in (r.get('i'), r.get('j')) if v is not None)
        return [o for o in self.rels if o is not r and fam(o) != fam(r)
                and mine & set(v for v in (o.get('i'), o.get('j')) if v is not None)]

    def _overlap(self, r):
        """classification only: two collapses whose constraints compete for one parameter"""
        return bool(self._conflicts(r))

    def _osig(self, r):
        """signature fields about competing collapses.  overlap_kind (only when overlap is true):
             'same_collapse'    - EVERY competing pin/tie collapse on a parameter of the failing relation was applied by the
                                  same Collapse() call that applied the failing relation itself;
             'across_collapses' - at least one of them was applied by a different Collapse() call (older or newer).
        Deterministic: it depends only on which Collapse() call (numbered in order) applied each relation."""
        c = self._conflicts(r)
        if not c:
            return {'overlap': False}
        return {'overlap': True, 'overlap_kind': 'same_collapse' if all(o['call'] == r['call'] for o in c) else 'across_collapses'}

    def _holds(self, r, x, T=None):
        """None = holds, else text"""
        k = r['rel']
        if k.startswith('at_'):
            if r['value'] is None:
                r['value'] = x[r['i']]           # target=None: fixed from now on at whatever it is fixed at
                if T is not None:
                    T.hist('X:at_none_fixed_at_best_of_the_moment', x[r['i']] == r['best_then'])
                return None
            if x[r['i']] != r['value']:
                return 'x[%d] = %r, fixed at %r by the collapse' % (r['i'], x[r['i']], r['value'])
        elif k == 'weight':
            if x[r['i']] != 0.0:
                return 'weight x[%d] = %r, fixed at 0.0 by the collapse' % (r['i'], x[r['i']])
        elif k == 'as_offset':
            if T is not None and not r['seen']:
                # recorded, not judged: the statement names 'equal to its partner' only
                r['seen'] = True
                gap = abs(x[r['j']] - x[r['i']])
                T.hist('X:as_offset_true:gap_after_collapse(not_judged)',
                       'the gap seen at the collapse' if gap == r['gap_then'] else
                       ('a multiple of 1.0 (the flag used as a number)' if gap in (1.0, 2.0, 3.0) and r['gap_then'] != gap else 'other'))
        elif k in ('as', 'position'):
            if x[r['i']] != x[r['j']]:
                return 'x[%d] = %r differs from its partner x[%d] = %r' % (r['j'], x[r['j']], r['i'], x[r['i']])
        return None

    def after(self, op, outcome, T):
        lab, s = self.lab, self.lab.solver
        name = op[0]
        out = []
        cfg = lab.cfg
        base = {'half': 'solver', 'solver': cfg['solver']}
        driver = 'Solve' if name == 'Solve' else 'manual'
        abnormal = isinstance(outcome, tuple) and outcome and outcome[0] in ('HORIZON', 'RAISED')
        # ---- collapse events since the last operation
        nev0 = self.nev
        for call_no, ev in enumerate(lab.events[self.nev:], self.nev):
            if ev.raised is not None or ev.returned is None:
                continue
            applied = {}
            for doc, items in ev.returned.items():
                ident = _doc_ident(doc)
                if ident in ev.before:
                    applied[ident] = L.canon_mask(ident[0], items)
                else:
                    out.append((dict(base, clause='collapse_names_unknown_condition'),
                                'Collapse() returned %r which is not a condition of the termination' % doc[:80]))
            if ev.returned:
                self.stats['collapses'] += 1
                T.hist('X:collapse_applied_by', 'Solve loop' if ev.in_solve else 'manual Collapse()')
            # masks grow by exactly what was applied, nothing else changes
            if set(ev.after) != set(ev.before) or ev.others_after != ev.others_before or ev.shape_after != ev.shape_before:
                out.append((dict(base, clause='termination_changed'),
                            'Collapse() changed the conditions or their And/Or structure: before %r, after %r' % (ev.shape_before, ev.shape_after)))
            for ident, (kind, kw, mask) in ev.before.items():
                if ident not in ev.after:
                    continue
                want = set(mask) | applied.get(ident, set())
                got = ev.after[ident][2]
                if got != want:
                    how = 'lost_old' if (set(mask) - got) else ('missing_new' if (want - got) else 'extra')
                    out.append((dict(base, clause='mask_growth', how=how, kind=kind),
                                '%s mask was %s, Collapse() applied %s, mask is now %s (expected %s)'
                                % (kind, _fmt(mask), _fmt(applied.get(ident, set())), _fmt(got), _fmt(want))))
            for ident, items in applied.items():
                kind, kw, mask = ev.before[ident]
                again = set(it for it in items if _covered(kind, it, mask) or it in self.applied.get(ident, set()))
                if again:
                    out.append((dict(base, clause='reported_twice', kind=kind),
                                'Collapse() applied %s of %s again (mask before the call: %s)' % (_fmt(again), kind, _fmt(mask))))
                self.applied.setdefault(ident, set()).update(items)
                n0 = len(self.rels)
                self._add_relations(ev, kind, kw, items)
                for q in self.rels[n0:]:
                    q['call'] = call_no          # which Collapse() call applied it
        self.nev = len(lab.events)
        # ---- every point evaluated after a collapse satisfies every relation applied before it
        log = lab.cost.log
        bad = {}
        for idx in range(self.nlog, len(log)):
            x = log[idx][0]
            for r in self.rels:
                if r['start'] <= idx:
                    self.stats['points_checked'] += 1
                    why = self._holds(r, x, T)
                    if why is not None and r['rel'] not in bad:
                        bad[r['rel']] = (r, 'cost call #%d at %r: %s (collapse applied before call #%d)' % (idx, list(x), why, r['start']))
        self.nlog = len(log)
        for rel, (r, text) in bad.items():
            out.append((dict(base, clause='evaluated_point', relation=rel, **self._osig(r)), '%s [driver: %s]' % (text, driver)))
        # ---- stop messages never name something already applied / masked
        msg = outcome if (name in ('Step', 'StepTo') and isinstance(outcome, str)) else None
        if name == 'Solve' and not abnormal:
            with lab._env():
                msg = s.Terminated(info=True)
            if not msg:
                out.append((dict(base, clause='solve_returned_unstopped'), 'Solve returned but Terminated(info=True) is empty'))
        if msg:
            now = L.collapse_state(s._termination)
            for ident, items in L.parse_message(msg).items():
                if ident in now:
                    kind, kw, mask = now[ident]
                    again = set(it for it in items if _covered(kind, it, mask))
                    if again:
                        out.append((dict(base, clause='reported_again', kind=kind),
                                    'stop message reports %s of %s although the mask is %s' % (_fmt(again), kind, _fmt(mask))))
        if name == 'Collapse' and not abnormal and any(ev.returned for ev in lab.events[nev0:]):
            # a collapse was applied by hand: when the solver still reports an ordinary (non-collapse) stop, the run is over
            # and bestSolution is its final solution
            with lab._env():
                msg = s.Terminated(info=True) or None
            T.hist('X:after_manual_collapse', 'an ordinary stop holds: final solution judged' if (msg and not L.only_collapse(msg))
                   else 'not stopped')
        # ---- the final solution
        stopped = (name == 'Solve' and not abnormal) or (msg and not L.only_collapse(msg))
        if stopped and self.rels:
            best = tuple(float(v) for v in np.asarray(s.bestSolution, dtype=float).ravel())
            self.stats['final_checked'] += 1
            seen = set()
            for r in self.rels:
                if r['rel'].startswith('at_') and r['value'] is None:
                    continue
                why = self._holds(r, best)
                T.hist('X:final_solution(%s,%s)' % (cfg['solver'], r['rel']), 'violates' if why else 'satisfies')
                if why is not None and r['rel'] not in seen:
                    seen.add(r['rel'])
                    # observed from the call log: was this best point last evaluated before the collapse was applied?
                    stale = (not any(l[0] == best for l in log[r['start']:])) and any(l[0] == best for l in log[:r['start']])
                    out.append((dict(base, clause='final_solution', relation=r['rel'], best_predates_collapse=stale, **self._osig(r)),
                                'stopped with %r; bestSolution = %r: %s%s [driver: %s]'
                                % ((msg or '')[:60], list(best), why,
                                   ' (this point was evaluated before the collapse and never after it)' if stale else '', driver)))
        # ---- abnormal ends
        if abnormal:
            if outcome[0] == 'HORIZON':
                out.append((dict(base, clause='runaway', op=name), '%s did not return within the horizon (%s)' % (name, outcome[1])))
            else:
                in_collapse = bool(lab.events) and lab.events[-1].raised is not None
                out.append(({'half': 'solver', 'clause': 'raised', 'error': outcome[1], 'during': 'Collapse' if in_collapse else 'other',
                             'targets': '+'.join(_term_targets(cfg['term11'])) or 'n/a',
                             'measure_mask_formats': '+'.join(_term_formats(cfg['term11'])) or 'n/a'},
                            '%s raised %s: %s%s' % (name, outcome[1], outcome[2],
                                                    (' while applying the collapse %s' % _pending(lab)) if in_collapse else '')))
        return out


def _pending(lab):
    try:
        with lab._env():
            msg = lab.solver.__dict__.get('__stop__') or lab.solver.Terminated(info=True)
        return dict((k[0], _fmt(v)) for k, v in L.parse_message(msg).items())
    except Exception:
        return '?'


def _doc_ident(doc):
    kind, kwtext = doc.split(' with ', 1)
    kw = dict(eval(kwtext, {'np': np, 'inf': float('inf'), 'nan': float('nan')}))
    kw.pop('mask', None)
    return (kind, repr(sorted(kw.items(), key=lambda t: t[0])))


def _covered(kind, item, mask):
    if kind == 'CollapseAs':
        return ref.as_mask_hits(mask, item)
    return item in mask


def _fmt(s):
    return sorted(s, key=repr)


def run_trace(cfg, ops, T, judged=None):
    """one execution; the judge is consulted after every operation"""
    lab = L.Lab11(cfg)
    J = Judge(lab)
    done = []
    key0 = (cfg['solver'], cfg['setup'], cfg['term'], cfg['seed'], cfg['init'], cfg['limits'][0])
    for op in ops:
        try:
            outcome = lab.apply(op)
        except solverlab.Horizon as e:
            outcome = ('HORIZON', str(e))
        except Exception as e:
            outcome = ('RAISED', type(e).__name__, str(e)[:200], traceback.format_exc()[-600:])
        done.append(op)
        T.count('transitions')
        key = tuple(map(tuple, done))
        fresh = judged is None or key not in judged
        if judged is not None:
            judged.add(key)
        probs = J.after(op, outcome, T if fresh else Tally())
        s = lab.solver
        T.state((key0, len(lab.cost.log), tuple(float(v) for v in np.asarray(s.bestSolution, dtype=float).ravel()),
                 sorted((k[0], _fmt(v[2])) for k, v in L.collapse_state(s._termination).items())))
        if fresh:
            T.count('histories_judged')
            tag = outcome[0] if isinstance(outcome, tuple) else ('stop' if outcome and op[0] != 'Solve' else ('solved' if op[0] == 'Solve' else 'continue'))
            T.hist('X:outcome(%s)' % op[0], tag)
            for sig, detail in probs:
                T.violate(sig, {'kind': 'solver', 'cfg': cfg, 'ops': [list(o) for o in done]},
                          '%s | %s %s term=%s seed=%s init=%s ops=%s' % (detail, cfg['solver'], cfg['setup'], cfg['term11'], cfg['seed'],
                                                                       cfg['init'], [list(o) for o in done]))
        if isinstance(outcome, tuple) and outcome[0] in ('HORIZON', 'RAISED'):
            break
    T.count('traces')
    T.hist('X:collapses_per_trace', J.stats['collapses'])
    for k in J.kinds:
        T.hist('X:relation_applied', k)
    if J.stats['collapses'] and J.stats['points_checked']:
        T.nontriv((key0, tuple(map(tuple, ops))))
    T.count('points_checked_after_collapse', J.stats['points_checked'])
    T.count('final_solutions_checked', J.stats['final_checked'])
    return lab, J


# ---- a collapse condition and an ordinary stop that become true at the SAME generation
# The collapse leaf looks back h generations at a coordinate (pair) that is inside its tolerance from the start, so it
# fires at generation h; the ordinary stop is ChangeOverGeneration(1e3, g) (fires at generation g) or VTR tuned to the
# cost the same run has at generation k (fires at the first generation whose cost is that low).  ALL (g, h) / (k, h) of
# a small square are run, so the two coincide on part of the square, the collapse comes first on another part and the
# stop first on the rest.  Nothing new is demanded: the Judge's clauses (final_solution, mask_growth, ...) are applied.
CO_SETUPS = {'flat3': ['At', 0.0, T4], 'tied3': ['As', False, 0.5]}
CO_SHAPES = ('or', 'or_rev', 'and', 'or_and')
CO_FAR = ['COG', 1e-12, 60]
CO_SQUARE = (3, 5)     # quick / thorough: generations 1..n for both the stop and the collapse window


def co_term(shape, stop, leaf):
    if shape == 'or':
        return ['Or', stop, leaf]
    if shape == 'or_rev':
        return ['Or', leaf, stop]
    if shape == 'and':
        return ['And', stop, leaf]
    return ['Or', CO_FAR, ['And', stop, leaf]]


def co_baseline(cfg, n):
    """the cost of the best point at generations 1..n of this very configuration (no stop condition in the way)"""
    c = dict(cfg, term='co:baseline', term11=['COG', -1.0, 10 ** 6])
    lab = L.Lab11(c)
    for _ in range(n + 1):
        lab.apply(['Step'])
    e = [float(v) for v in lab.solver.energy_history]
    return e[1:n + 1]


def co_cases(cfg, G):
    kind = CO_SETUPS[cfg['setup']]
    energies = co_baseline(cfg, G)
    for h in range(1, G + 1):
        leaf = kind + [h, None]
        for shape in CO_SHAPES:
            for g in range(1, G + 1):
                yield ('cog', shape, g, h), co_term(shape, ['COG', 1e3, g], leaf)
            for k, e in enumerate(energies, 1):
                yield ('vtr', shape, k, h), co_term(shape, ['VTR', e, 0.0], leaf)


def shard_coincide(cfg, G, T):
    for tag, spec in co_cases(cfg, G):
        c = dict(cfg, term='co:%s:%s:%d:%d' % tag, term11=spec)
        modes = [[['Solve']]]
        if tag[1] == 'or':
            modes.append([['StepTo', 40], ['Collapse'], ['Solve']])
        for ops in modes:
            lab, J = run_trace(c, ops, T)
            if len(ops) == 1:
                with lab._env():
                    msg = lab.solver.Terminated(info=True) or ''
                parts = msg.split('; ') if msg else []
                pend = any(p.startswith('Collapse') for p in parts)
                ordinary = any(not p.startswith('Collapse') for p in parts)
                T.hist('X:coincide(%s,%s)' % (cfg['solver'], tag[0]),
                       'stopped with a collapse pending at the same generation: %s applied' % ('nothing' if not J.stats['collapses'] else 'something')
                       if (pend and ordinary) else ('collapse applied, then stopped' if J.stats['collapses'] else 'stopped, no collapse'))
                if pend and ordinary:
                    T.nontriv(('coincide', cfg['solver'], cfg['setup'], tag))
    T.hist('X:coincide_shapes', list(CO_SHAPES))
    if (cfg['solver'], cfg['setup']) == ('NM', 'flat3'):
        T.sample({'section': 'collapse and ordinary stop at one generation', 'solver': 'NM', 'setup': 'flat3',
                  'termination': co_term('or', ['COG', 1e3, 2], CO_SETUPS['flat3'] + [2, None]), 'ops': [['Solve']]}, 1)


def shard_solver(item):
    cfg, what, arg = item
    T = Tally()
    judged = set()
    if what == 'coincide':
        shard_coincide(cfg, arg, T)
        return T
    if what == 'general':
        depth, first = arg
        for tail in itertools.product(range(len(OPS)), repeat=depth - 1):
            run_trace(cfg, [OPS[first]] + [OPS[i] for i in tail], T, judged)
    elif what == 'stops':
        # every generation at which the run may legitimately stop: the generation limit is the stop condition
        for g in range(arg[0], arg[1]):
            c2 = dict(cfg)
            c2['limits'] = [g, cfg['limits'][1]]
            run_trace(c2, [['Solve']], T)
    else:
        for ops in structured(arg):
            run_trace(cfg, ops, T, judged)
        if (cfg['solver'], cfg['setup'], cfg['term']) in (('NM', 'flat3', 'at0_as'), ('DE2', 'meas22', 'wp')):
            T.sample({'cfg': {k: v for k, v in cfg.items() if k != 'term11'}, 'termination': cfg['term11'], 'ops': structured(arg)[2]}, 1)
    return T


def shard_determinism(item):
    """ownership proof: the same (cfg, ops) twice gives bit-identical call logs and events"""
    T = Tally()
    for cfg in item:
        d = []
        for _ in range(2):
            lab, J = run_trace(cfg, [['StepTo', 40], ['Collapse'], ['Solve']], Tally())
            d.append(digest(repr((lab.cost.log, [(e.nlog, repr(e.returned)) for e in lab.events], list(map(float, lab.solver.bestSolution))))))
        if d[0] != d[1]:
            raise AssertionError('nondeterministic execution for %r' % (cfg,))
        T.count('determinism_checks')
    return T



# ====================================================================== T: one termination object, two solvers
# A Collapse* condition must answer from the history of the solver it is asked about.  Two solvers with
# different start points share ONE termination object; after every operation the stop message returned by
# Step, solver.Collapsed(info=True) and what Collapse() applies are compared with the reference detector
# evaluated on THAT solver's own step monitor.
SHARED_TERMS = {
    'at0_as': ['Or', ['COG', 1e-12, 30], ['At', 0.0, T4, 2, None], ['As', False, T4, 2, None]],
    'at_none_g1': ['Or', ['COG', 1e-12, 30], ['At', None, T4, 1, None]],
    'as_wide': ['Or', ['COG', 1e-12, 30], ['As', False, 0.5, 1, None]],
    'at_list': ['Or', ['COG', 1e-12, 30], ['At', LIST_TARGET, 0.25, 2, [0]]],
}
SHARED_STARTS = {'A': [2.0 ** -5, 0.5, 0.75], 'B': [0.875, -0.375, 1.375]}
SHARED_PAIRS = [('NM', 'NM'), ('DE', 'DE'), ('NM', 'Powell'), ('DE2', 'NM')]
SHARED_DEPTH = 6


def shared_cfg(solver, who, seed):
    return {'solver': solver, 'seed': seed + (0 if who == 'A' else 7), 'term': None, 'term11': None, 'setup': 'flat3', 'cost': 'flat',
            'dim': 3, 'x0': SHARED_STARTS[who], 'limits': [200, 3000], 'horizon': 4000, 'init': 'point', 'initbox': 'unit', 'npop': 4}


def own_history_says(solver):
    """{identity: (kind, expected set, gated)} from the reference detector on this solver's own step monitor"""
    hist = [tuple(float(v) for v in x) for x in solver._stepmon._x]
    lg = len(solver.energy_history)
    out = {}
    for ident, (kind, kw, mask) in L.collapse_state(solver._termination).items():
        if not hist:
            out[ident] = (kind, set(), True)
            continue
        if kind == 'CollapseAt':
            want = ref.at_ref(hist, kw.get('target'), kw['tolerance'], kw['generations'], mask)
        elif kind == 'CollapseAs':
            want = ref.as_ref(hist, bool(kw.get('offset')), kw['tolerance'], kw['generations'], mask)
        else:
            continue
        out[ident] = (kind, want, lg <= kw['generations'])
    return out


def shared_judge(T, who, via, got, want, case, text):
    """got: {identity: set} reported for solver `who`; want: own_history_says(solver)"""
    for ident, (kind, exp, gated) in want.items():
        g = got.get(ident, set())
        extra = g - exp
        missing = set() if gated else exp - g     # too short a history: only 'nothing the history does not meet' is judged
        if extra or missing:
            T.violate({'half': 'solver', 'clause': 'shared_termination', 'dir': 'extra' if extra else 'missing', 'via': via, 'kind': kind},
                      case, '%s: %s of solver %s reports %s for %s; its own step monitor gives %s (%s)'
                      % (text, via, who, _fmt(g), kind, _fmt(exp), 'reported although its history does not meet the definition' if extra
                         else 'not reported'))
    for ident in got:
        if ident not in want:
            T.violate({'half': 'solver', 'clause': 'shared_termination', 'dir': 'unknown_condition', 'via': via, 'kind': ident[0]},
                      case, '%s: %s of solver %s names %r which is not in its termination' % (text, via, who, ident))


def _collapsed_sets(d):
    out = {}
    for doc, items in (d or {}).items():
        ident = _doc_ident(doc)
        out[ident] = L.canon_mask(ident[0], items)
    return out


def run_shared(case, T):
    """case: {'kind':'shared','pair','term','seed','prefix','ops','probe'}; ops over StepA/StepB/CollapseA/CollapseB/
    RunA (step A to its stop) / ShareAB (B takes the termination object A holds now) / FreshB (a new solver B with that object)"""
    spec = SHARED_TERMS[case['term']]
    term = L.build_term(spec)
    labs = {}
    for who, solver in zip('AB', case['pair']):
        labs[who] = L.Lab11(shared_cfg(solver, who, case['seed']))
        with labs[who]._env():
            labs[who].solver.SetTermination(term)      # the SAME object for both
    done = []
    text0 = '%s+%s sharing one %s' % (case['pair'][0], case['pair'][1], spec)
    for op in list(case['prefix']) + list(case['ops']):
        done.append(op)
        who = op[-1]
        lab = labs[who]
        s = lab.solver
        text = '%s after %s' % (text0, done)
        c = dict(case, ops_done=list(done))
        T.count('transitions')
        try:
            if op.startswith('Step'):
                with lab._env():
                    msg = s.Step()
                if msg:
                    shared_judge(T, who, 'Step message', L.parse_message(msg), own_history_says(s), c, text)
                    T.hist('T:step_message', 'collapse' if L.parse_message(msg) else 'other stop')
            elif op.startswith('Run'):
                msg = None
                for _ in range(40):
                    with lab._env():
                        msg = s.Step()
                    if msg:
                        break
                if msg:
                    shared_judge(T, who, 'Step message', L.parse_message(msg), own_history_says(s), c, text)
            elif op.startswith('Collapse'):
                want = own_history_says(s)
                with lab._env():
                    r = s.Collapse()
                if r:
                    T.hist('T:collapse_applied', who)
                    shared_judge(T, who, 'Collapse()', _collapsed_sets(r), want, c, text)
            elif op == 'ShareAB':
                with labs['B']._env():
                    labs['B'].solver.SetTermination(labs['A'].solver._termination)
            elif op == 'FreshB':
                obj = labs['A'].solver._termination if case.get('fresh_uses') == 'current' else term
                labs['B'] = L.Lab11(shared_cfg(case['pair'][1], 'B', case['seed']))
                with labs['B']._env():
                    labs['B'].solver.SetTermination(obj)
        except solverlab.Horizon as e:
            T.violate({'half': 'solver', 'clause': 'runaway', 'section': 'shared'}, c, '%s: horizon (%s)' % (text, e))
            break
        except Exception as e:
            T.violate({'half': 'solver', 'clause': 'raised', 'section': 'shared', 'error': type(e).__name__}, c,
                      '%s: raised %s' % (text, _err(e)))
            break
        if case['probe']:
            for w in 'AB':
                sv = labs[w].solver
                if not len(sv._stepmon):
                    continue
                with labs[w]._env():
                    got = sv.Collapsed(info=True)
                shared_judge(T, w, 'Collapsed(info=True)', _collapsed_sets(got), own_history_says(sv), c, text)
                T.hist('T:probe', 'reports a collapse' if got else 'nothing')
    T.count('traces')
    same = labs['A'].solver._termination is labs['B'].solver._termination
    T.hist('T:object_shared_at_the_end', same)
    gens = (len(labs['A'].solver.energy_history), len(labs['B'].solver.energy_history))
    T.state(('shared', case['pair'], case['term'], case['seed'], tuple(done), gens,
             tuple(float(v) for v in labs['A'].solver.bestSolution), tuple(float(v) for v in labs['B'].solver.bestSolution)))
    if gens[0] == gens[1] and gens[0] > 0:
        T.nontriv(('shared', case['pair'], case['term'], tuple(done), case['probe']))
    return labs


SHARED_PREFIXES = [
    ('common prefix', [], None),
    ('two steps each', ['StepA', 'StepA', 'StepB', 'StepB'], None),
    ('A collapsed, B takes the rebuilt object', ['RunA', 'CollapseA', 'ShareAB'], None),
    ('A ran to its stop, fresh B reuses the object', ['RunA', 'FreshB'], 'original'),
    ('A collapsed, fresh B reuses the rebuilt object', ['RunA', 'CollapseA', 'FreshB'], 'current'),
]


def shard_shared(item):
    pair, term, seed, depth = item
    T = Tally()
    for name, prefix, fresh in SHARED_PREFIXES:
        for probe in (False, True):
            for tail in itertools.product(('StepA', 'StepB'), repeat=depth):
                ops = list(tail) + ['CollapseA', 'CollapseB', 'StepA', 'StepB']
                case = {'kind': 'shared', 'pair': list(pair), 'term': term, 'seed': seed, 'prefix': prefix, 'ops': ops,
                        'probe': probe, 'fresh_uses': fresh}
                run_shared(case, T)
                T.hist('T:scenario', name)
    T.sample({'section': 'one termination object, two solvers', 'pair': list(pair), 'termination': SHARED_TERMS[term],
              'starts': SHARED_STARTS, 'prefix': SHARED_PREFIXES[2][1], 'ops': ['StepA', 'StepB', 'StepB', 'StepA', 'StepA', 'StepB', 'CollapseA', 'CollapseB', 'StepA', 'StepB']}, 1)
    return T


# ====================================================================== driver
def _dispatch(item):
    import time
    sect, payload = item
    t0 = time.process_time()
    T = {'A': shard_at, 'S': shard_as, 'W': shard_measure, 'P': shard_measure, 'K': shard_cost,
         'X': shard_solver, 'D': shard_determinism, 'T': shard_shared}[sect](payload)
    T.count('cpu_ms_section_%s' % sect, int(1000 * (time.process_time() - t0)))
    T.count('shards_section_%s' % sect)
    return T


def _prefixes(vecs, n):
    return list(itertools.product(vecs, repeat=n))


def detector_items(ctx):
    th = ctx.thorough
    items = []
    v1, v2, v3 = [list(itertools.product(V, repeat=d)) for d in (1, 2, 3)]
    # ---- collapse_at / collapse_as: (dim, length, prefix, mask level)
    for sect, top in (('A', 3), ('S', 3)):
        for n in (1, 2, 3, 4):
            items.append((sect, (1, n, (), top)))
        for n in (1, 2, 3):
            items.append((sect, (2, n, (), top)))
        for f in v2:
            items.append((sect, (2, 4, (f,), top if th else (1 if sect == 'A' else 0))))
        items.append((sect, (3, 1, (), top)))
        for f in v3:
            items.append((sect, (3, 2, (f,), top if (th or sect == 'A') else 2)))
        if th:
            for f in v3:
                items.append((sect, (3, 3, (f,), top if sect == 'A' else 2)))
            for f in _prefixes(v3, 2):
                items.append((sect, (3, 4, f, 0)))
        else:
            for f in v3:
                items.append((sect, (3, 3, (f,), 0)))
    # ---- measure detectors: (which, npts, length, prefix indices, mask level, background)
    for which, sect in (('w', 'W'), ('p', 'P')):
        for n in (1, 2, 3):
            items.append((sect, (which, (2,), n, (), 3, 1.0)))
        items.append((sect, (which, (2,), 1, (), 3, 0.0)))
        for f in range(9):
            items.append((sect, (which, (2,), 4, (f,), 3 if th else (1 if which == 'w' else 0), 1.0)))
        items.append((sect, (which, (2, 2), 1, (), 3, 1.0)))
        items.append((sect, (which, (2, 2), 1, (), 3, 0.0)))
        for f in range(81):
            items.append((sect, (which, (2, 2), 2, (f,), 3 if th else 0, 1.0)))
        if th and which == 'w':
            for f in itertools.product(range(81), repeat=2):
                items.append((sect, (which, (2, 2), 3, f, 0, 1.0)))
        # unequal numbers of support points
        items.append((sect, (which, (3, 2), 1, (), 2, 1.0)))
        if th:
            for f in range(243):
                items.append((sect, (which, (3, 2), 2, (f,), 0, 1.0)))
    # ---- collapse_cost
    for n, dim in ((3, 1), (4, 1), (5, 1), (3, 2)):
        items.append(('K', (n, dim, 0, 1)))
    for part in range(6):
        items.append(('K', (4, 2, part, 6) if th else (4, 2, part, 6, (0.0, 0.5, 2.0))))
    return items


def solver_items(ctx):
    th = ctx.thorough
    pterms = sorted(k for k in TERMS if k not in MTERMS) if th else QUICK_TERMS
    mterms = sorted(MTERMS) if th else QUICK_MTERMS
    seeds = [ctx.seed, ctx.seed + 1] + ([ctx.seed + 2] if th else [])
    depth = 4 if th else 3
    cfgs = []
    for solver in solverlab.SOLVERS:
        for setup in (sorted(SETUPS) if th else ['flat3', 'tied3', 'tied4', 'chain4', 'chain5', 'meas22']):
            for term in (mterms if setup == 'meas22' else ((T4TERMS if th else T4TERMS[:3]) if setup == 'tied4' else
                                                           (['as_chain'] if setup in ('chain4', 'chain5') else pterms))):
                if SETUPS[setup]['dim'] == 2 and term in ('at_list', 'as_masked'):
                    continue
                if not th and setup == 'tied3' and term not in TIED3_QUICK:
                    continue     # quick: the tied-pair cost gets the terminations in which the pair (0,1) matters
                if not th and ((term in ('when_or', 'and_single') and solver not in ('NM', 'DE2')) or
                               (term == 'at_1' and solver not in ('NM', 'Powell'))):
                    continue     # quick: mask bookkeeping is solver independent; at_1 is the scalar target Powell reaches
                if solver.startswith('DE'):
                    for k, seed in enumerate(seeds[:1] if ((setup == 'meas22' and not th) or setup == 'flat2') else seeds):
                        cfgs.append(solver_cfg(solver, setup, term, seed, 'random' if (k % 2 and setup != 'meas22') else 'point'))
                else:
                    cfgs.append(solver_cfg(solver, setup, term, ctx.seed))
    items = []
    for cfg in cfgs:
        items.append(('X', (cfg, 'structured', th)))
        items.append(('X', (cfg, 'stops', STOPS)))
        if cfg['solver'].startswith('DE') and cfg['seed'] > ctx.seed + (1 if th else 0):
            continue     # the last DE population gets the structured histories and the stop points only
        for first in range(len(OPS)):
            items.append(('X', (cfg, 'general', (depth - 1 if cfg['setup'] == 'meas22' else depth, first))))
    for solver in solverlab.SOLVERS:
        for setup in sorted(CO_SETUPS):
            c = solver_cfg(solver, setup, 'at_0', ctx.seed)
            c['term'], c['term11'] = 'co', None
            items.append(('X', (c, 'coincide', CO_SQUARE[1] if th else CO_SQUARE[0])))
    for pair in (SHARED_PAIRS if th else SHARED_PAIRS[:3]):
        for term in (sorted(SHARED_TERMS) if th else ['at0_as', 'at_none_g1', 'as_wide']):
            for seed in ([ctx.seed] + ([ctx.seed + 1] if th else [])):
                items.append(('T', (pair, term, seed, SHARED_DEPTH if th else SHARED_DEPTH - 1)))
    det = [solver_cfg(sv, 'flat3', 'at0_as', ctx.seed, 'random' if sv.startswith('DE') else 'point') for sv in solverlab.SOLVERS]
    items.append(('D', det))
    return items, cfgs, depth


def run(ctx):
    ditems = detector_items(ctx)
    sitems, cfgs, depth = solver_items(ctx)
    # heavy shards first so the pool stays busy
    items = sitems + ditems
    table = {}
    for sect, payload in ditems:
        if sect in ('A', 'S'):
            key = '%s dim=%d length=%d' % ({'A': 'collapse_at', 'S': 'collapse_as'}[sect], payload[0], payload[1])
            lvl = payload[3]
        elif sect in ('W', 'P'):
            key = '%s npts=%s length=%d unread_half=%s' % ({'W': 'collapse_weight', 'P': 'collapse_position'}[sect],
                                                          tuple(payload[1]), payload[2], payload[5])
            lvl = payload[4]
        else:
            continue
        table[key] = 'mask level %d' % lvl
    ctx.bounds = {
        'detectors': {
            'values': list(V), 'tolerances': list(TOLS), 'windows': list(WINDOWS),
            'collapse_at_targets': ['None', 0.0, [1.0, 0.0, 1e-5]], 'collapse_as_offset': [False, True],
            'histories': 'ALL sequences of the stated length over values^dim (measures: over values^(number of weights or positions), '
                         'the unread half of the vector constant)',
            'mask_levels': {
                'collapse_at': {'3': 'None + every subset of indices', '2': 'None, {}, {0}, {0,last}', '1': 'None, {last}', '0': 'None'},
                'collapse_as': {'3': 'None + every subset of indices + every non-empty subset of pairs in both orientations + every {index, pair} mix',
                                '2': 'None, {}, {last}, {last pair}, {reversed first pair, last}', '1': 'None + one mixed mask', '0': 'None'},
                'measures': {'3': 'None + every subset of the (measure,index) / (measure,pair in both orientations) universe in dict, set and where format '
                                  '+ where as list + dict with an empty entry', '2': 'None + {}, first, last, all (+ reversed last pair) in 3 formats',
                             '1': 'None + last item in 3 formats', '0': 'None'}},
            'enumerated': table,
            'collapse_cost': {'samples_in_monitor': [3, 4, 5], 'params': [1, 2], 'cost_values': list(COST_VALUES), 'limit': [0.5, 1.0],
                              'samples': [1, 2, 3], 'clip': [False, True],
                              'layouts': '1 param: ascending and descending order of recording; 2 params: x_k = (k, pi(k)) for every permutation pi'},
        },
        'solvers': {'solvers': list(solverlab.SOLVERS), 'setups': SETUPS,
                    'terminations': {k: TERMS[k] for k in (sorted(TERMS) if ctx.thorough else sorted(set(QUICK_TERMS + QUICK_MTERMS + T4TERMS[:3] + ['as_chain'])))},
                    'terminations_of_setup': {'tied3 (quick)': TIED3_QUICK, 'meas22': 'w*, p*', 'chain4, chain5': ['as_chain'], 'tied4': T4TERMS if ctx.thorough else T4TERMS[:3], 'others': 'at*, as*, and*, nested_or, mixed_tol, no_stop'},
                    'ops': OPS, 'general_depth': {'parameter setups': depth, 'measure setup': depth - 1},
                    'structured_histories': structured(ctx.thorough), 'configs': len(cfgs), 'stop_points': 'Solve under every generation limit in range%r' % (STOPS,),
                    'seeds': sorted(set(c['seed'] for c in cfgs)), 'DE_populations': 'NP=4; single start point (seed s) and random in [-1,2]^n (seed s+1); the last seed gets the structured histories and stop points only',
                    'limits(generations,evaluations)': {'default': [120, 1500], 'no_stop': [40, 400]},
                    'evaluation_horizon': 4000, 'collapse_call_horizon': L.MAX_COLLAPSE_CALLS,
                    'collapse_and_stop_at_one_generation': {
                        'solvers': list(solverlab.SOLVERS), 'setups': CO_SETUPS, 'shapes': {sh: co_term(sh, 'STOP', 'COLLAPSE') for sh in CO_SHAPES},
                        'STOP': 'ChangeOverGeneration(1e3, g) for every g, and VTR(cost of the same run at generation k, 0.0) for every k',
                        'COLLAPSE': 'CollapseAt(0.0, 2**-4, h) on the ignored coordinate (flat3) / CollapseAs(False, 0.5, h) (tied3) for every h',
                        'g,k,h': 'ALL of 1..%d' % (CO_SQUARE[1] if ctx.thorough else CO_SQUARE[0]),
                        'ops': 'Solve; for the Or shape also StepTo(40) Collapse Solve (final solution judged after the manual Collapse when an ordinary stop still holds)'}},
        'shared_termination': {'pairs': SHARED_PAIRS if ctx.thorough else SHARED_PAIRS[:3],
                               'terminations': SHARED_TERMS if ctx.thorough else {k: SHARED_TERMS[k] for k in ('at0_as', 'at_none_g1', 'as_wide')}, 'starts': SHARED_STARTS,
                               'scenarios': [[n, p] for n, p, f in SHARED_PREFIXES],
                               'interleavings': 'after each scenario prefix: ALL sequences of length %d over {StepA, StepB}, then CollapseA, CollapseB, StepA, StepB; '
                                                'each once judging only what the library itself evaluates (Step messages, Collapse()) and once also probing '
                                                'Collapsed(info=True) of both solvers after every operation' % (SHARED_DEPTH if ctx.thorough else SHARED_DEPTH - 1)},
    }
    ctx.rule = ("detectors: a case is one (history, tolerance, window, target/offset, mask) tuple evaluated on a real Monitor; ALL histories of "
                "each stated length over {0,1e-5,1}^dim are used. distinct_nontrivial counts distinct (window content, setting) classes in which "
                "some but not all candidates collapse (collapse_cost: sample sets with non-constant cost). solvers: a case is one (configuration, "
                "op sequence); ALL sequences of the stated depth over the 4-op alphabet plus the structured histories; non-trivial = at least one "
                "collapse was applied and at least one later cost call was checked against it. states = distinct (window content, settings) classes "
                "+ distinct solver snapshots (call count, best solution, masks).")
    ctx.assumptions = [
        "the look-back window of N generations is the last N monitor entries (all of them when fewer exist)",
        "collapse_position's own docstring leaves the formula blank: max over the window of |pos_i - pos_j| <= tolerance is used "
        "(CollapsePosition's docstring, with the non-strict comparison the other three detectors document)",
        "the empty mask in 'where' format is spelled () - ((),()) is rejected by collapse_position and is not treated as an accepted format",
        "collapse_cost is judged only where its docstring decides: no run of N samples at/above the limit -> no bounds; a run of N strictly "
        "above -> bounds (clip=False); samples strictly below the limit stay inside the reported intervals (clip=False); own output as mask -> {}. "
        "With clip=True the detector can cut away samples below the limit (even the minimum): counted in a histogram, not judged",
        "CollapseAt(target=None) fixes a parameter 'at its target' = at one constant value from the collapse on (which value is recorded, not judged)",
        "CollapseAs(offset=True): the statement names only 'equal to its partner'; the imposed relation (x[j] = x[i] + True) is recorded, not judged",
        "the final solution is judged when Solve returns or a Step reports a stop that is not a pending collapse, and after a manual Collapse() "
        "that applied something while Terminated(info=True) still names an ordinary (non-collapse) stop condition",
        "violation signatures carry overlap=True when an applied collapse of the other family (fix a parameter / tie a pair) touches the same parameter (competing constraints); "
        "overlap_kind says whether all competing collapses came from the same Collapse() call as the failing one (same_collapse) or not (across_collapses)",
        "section T: while a solver's history is not longer than the window (the factories report nothing then) only 'nothing is reported that "
        "the history does not meet' is judged; afterwards the report must equal the reference detector on the solver's own monitor",
        "ensemble Collapse is documented as not implemented: out of scope",
    ]
    ctx.pmap(_dispatch, items)


# ====================================================================== replay
def _tup(v):
    return tuple(_tup(x) for x in v) if isinstance(v, list) else v


def replay(case):
    T = Tally()
    kind = case['kind']
    if kind == 'at':
        hist = [tuple(x) for x in case['hist']]
        at_case(T, make_monitor(hist), hist, case['target'], case['tolerance'], case['generations'],
                None if case['mask'] is None else set(case['mask']))
    elif kind == 'as':
        hist = [tuple(x) for x in case['hist']]
        mask = None if case['mask'] is None else set(tuple(m) if isinstance(m, list) else m for m in case['mask'])
        as_case(T, make_monitor(hist), hist, case['offset'], case['tolerance'], case['generations'], mask)
    elif kind in ('w', 'p'):
        hist = [tuple(x) for x in case['hist']]
        items = None if case['mask_items'] is None else [(m, tuple(v) if isinstance(v, list) else v) for m, v in case['mask_items']]
        npts = tuple(case['npts'])
        try:
            mon = make_monitor(hist, npts)
        except Exception as e:
            return ['Monitor(npts=%r) could not be filled: %s' % (npts, _err(e))]
        measure_case(T, kind, mon, hist, npts, case['tolerance'], case['generations'], case['format'], items)
    elif kind == 'cost':
        cost_case(T, [tuple(x) for x in case['xs']], case['ys'], case['limit'], case['samples'], case['clip'])
    elif kind == 'solver':
        run_trace(case['cfg'], case['ops'], T)
    elif kind == 'shared':
        c = dict(case)
        if 'ops_done' in c:      # re-run exactly the operations that had been executed when the case was recorded
            n = len(c['prefix'])
            c['prefix'], c['ops'] = c['ops_done'][:n], c['ops_done'][n:]
        run_shared(c, T)
    return [v['detail'] for v in T.violations.values()]
