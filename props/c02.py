"""C02 - strict ranges: the objective is never evaluated outside the box.

(A) E1: all op sequences up to a depth over {Step, SetStrictRanges(box1|box2|False), SetConstraints(push|clamp)}
    for every solver, every accepted (tight, clip) mode and two costs/starts.
(B) E1: special boxes (degenerate, one-sided inf/None, negative) in force from the start, Step^n.
(C) E2: the random re-entry of clip=False bounds under a scripted random source, every answer enumerated
    (NM/Powell, which draw nothing else), and every draw of SetRandomInitialPoints / SetInitialPoints.
"""
import itertools
import numpy as np
from mc import graph, solverlab, tree, env
from mc.solverlab import Settings, Lab, inbox
from mc.runner import Tally

MODES = [(None, None), (True, None), (False, None), (None, True), (True, True), (None, False), (True, False)]


def alphabet(t, c):
    return [['Step'],
            ['SetStrictRanges', 'unit', t, c],
            ['SetStrictRanges', 'shift', t, c],
            ['SetStrictRanges', False],
            ['SetConstraints', 'push/pure'],
            ['SetConstraints', 'clamp/pure']]


class Oracle(graph.Oracle):
    prop = 'C02'

    def __init__(self, lab):
        graph.Oracle.__init__(self, lab)
        self.st = Settings(lab.cfg)
        self.box_since_start = lab.cfg.get('box') is not None   # in force from the first iteration, unchanged since
        self.stepped = False

    def after(self, op, outcome, b, a):
        lab, st = self.lab, self.st
        name = op[0]
        out = []
        if isinstance(outcome, tuple) and outcome and outcome[0] in ('RAISED', 'HORIZON'):
            # an exception is not an evaluation outside the box; recorded, not judged here
            return [] if outcome[0] == 'RAISED' else [({'clause': 'runaway'}, 'evaluation horizon exceeded')]
        st.update(op)
        if name == 'SetStrictRanges':
            if self.stepped or op[1] is False:
                self.box_since_start = False
            else:
                self.box_since_start = True
        if name == 'SetConstraints' and self.stepped:
            # the best energy on record predates the new constraints: the clause speaks of a fixed configuration
            self.box_since_start = False
        lim = st.limits()
        if name in ('Step', 'Solve'):
            self.stepped = True
            if lim is not None:
                for x, v in lab.cost.log[b['ncalls']:a['ncalls']]:
                    if not inbox(x, lim):
                        out.append(({'clause': 'evaluated_outside_box', 'tight': st.tight, 'clip': st.clip,
                                     'box_changed_midrun': not self.box_since_start},
                                    'cost called at %r outside the box %r (tight=%r clip=%r)' % (x, lim, st.tight, st.clip)))
                        break
            if lim is not None and self.box_since_start:
                e = a['bestE']
                if not isinstance(e, tuple) and np.isfinite(e) and not inbox(a['best'], lim):
                    out.append(({'clause': 'best_outside_box', 'tight': st.tight, 'clip': st.clip},
                                'bestSolution %r (energy %r) lies outside the box %r in force since the first iteration' % (a['best'], e, lim)))
        return out


def shard_ops(item):
    cfg, t, c, depth, prefix = item
    T = Tally()
    graph.explore_ops(cfg, alphabet(t, c), depth, Oracle, T, prefix)
    T.sample({'cfg': cfg, 'mode': [t, c], 'ops': [alphabet(t, c)[i] for i in (list(prefix) + [0] * depth)[:depth]]})
    T.nontriv(('A', sorted(cfg.items(), key=str), t, c, prefix))
    return T


def shard_special(item):
    cfgs, nsteps = item
    T = Tally()
    for cfg in cfgs:
        try:
            ops = [['Step']] * nsteps
            if cfg.get('then_box'):
                # (D) the box is replaced mid-run by one whose endpoints have another numeric type / are not integers
                ops = [['Step'], ['Step'], ['SetStrictRanges', cfg['then_box'], cfg.get('tight'), cfg.get('clip')]] + [['Step']] * 4
            graph.run_history(cfg, ops, Oracle, T)
            T.nontriv(('B', sorted(cfg.items(), key=str)))
        except Exception as e:
            T.hist('configuration_rejected', '%s:%s' % (cfg.get('box'), type(e).__name__))
            T.count('traces')
    T.sample({'cfg': cfgs[0], 'ops': [['Step']] * nsteps})
    return T


# ------------------------------------------------------------------ (C) scripted randomness
UNIT = (0.0, 0.5, env.ONE_MINUS)


def _scripted_run(cfg, nsteps, ch, ops=None):
    """NM/Powell with clip=False bounds: all random answers owned by the chooser"""
    rng = env.ScriptedRandom(ch, unit=UNIT, vector_draws='each')
    lab = Lab.__new__(Lab)
    lab.cfg = cfg; lab.tmpdir = None; lab.dim = cfg.get('dim', 2)
    lab.rng = rng
    lab.cost = solverlab.Recorder(cfg['cost'], 3000)
    lab.cb_log = []; lab.msgs = []; lab.objects = {}
    import io
    lab.stdout = io.StringIO(); lab.inner_steps = 0
    with lab._env():
        lab.solver = lab._build()
    bad = []
    st = Settings(cfg)
    lim = st.limits()
    for op in (ops or [['Step']] * nsteps):
        n0 = len(lab.cost.log)
        try:
            lab.apply(op)
        except solverlab.Horizon:
            break
        st.update(op)
        lim = st.limits()
        if op[0] == 'Step' and lim is not None:
            for x, v in lab.cost.log[n0:]:
                if not inbox(x, lim):
                    bad.append('cost called at %r outside %r' % (x, lim))
    s = lab.solver
    e = float(np.asarray(s.bestEnergy).ravel()[0])
    best = tuple(float(v) for v in np.asarray(s.bestSolution).ravel())
    if np.isfinite(e) and lim is not None and not inbox(best, lim) and cfg.get('box') is not None and not ops:
        bad.append('bestSolution %r outside %r' % (best, lim))
    return bad, (best, e, len(lab.cost.log), len(rng.log))


def shard_scripted(item):
    cfg, nsteps, bound, ops = item
    T = Tally()
    outcomes = set()
    def run(ch):
        return _scripted_run(cfg, nsteps, ch, ops)
    info = {}
    for ch, (bad, obs) in tree.explore(run, bound=bound, max_executions=20000, info=info):
        T.count('traces'); T.count('transitions', len(ch.trace) + nsteps)
        outcomes.add(obs)
        if obs[3]:
            T.count('executions_with_random_reentry')
        for msg in bad:
            T.violate({'clause': 'evaluated_outside_box_scripted', 'solver': cfg['solver'], 'clip': cfg.get('clip'), 'midrun': bool(ops)},
                      {'scripted': True, 'cfg': cfg, 'nsteps': nsteps, 'ops': ops, 'choices': ch.choices},
                      msg + ' | cfg=%s choices=%r' % (cfg, ch.choices))
    if info.get('capped'):
        T.count('scripted_configs_capped_at_20000_executions')
    for o in outcomes:
        T.state(('C', sorted(cfg.items(), key=str), o))
    if len(outcomes) > 1:
        T.nontriv(('C', sorted(cfg.items(), key=str), repr(ops)))
    T.hist('scripted_distinct_outcomes', min(len(outcomes), 50))
    T.sample({'scripted_cfg': cfg, 'nsteps': nsteps, 'ops': ops})
    return T


def shard_initial(item):
    solver, dim, kind, arg = item
    T = Tally()
    def run(ch):
        rng = env.ScriptedRandom(ch, unit=UNIT)
        s = solverlab.new_solver(solver, dim, 4)
        with env.owned_random(rng):
            if kind == 'random':
                lo, hi = arg
                s.SetRandomInitialPoints(list(lo), list(hi))
            else:
                x0, r = arg
                s.SetInitialPoints(list(x0), r)
        return [list(map(float, p)) for p in s.population]
    for ch, pop in tree.explore(run):
        T.count('traces'); T.count('transitions', len(ch.trace) + 1)
        T.state((solver, dim, kind, repr(arg), repr(pop)))
        if any(c for c in ch.choices):
            T.nontriv((solver, dim, kind, repr(arg), tuple(ch.choices)))
        if kind == 'random':
            lo, hi = arg
            lo = [(-1e3 if v is None else v) for v in lo]; hi = [(1e3 if v is None else v) for v in hi]
            for m in pop:
                if not all(min(l, h) <= v <= max(l, h) for v, l, h in zip(m, lo, hi)):
                    T.violate({'clause': 'initial_point_outside_limits', 'call': 'SetRandomInitialPoints', 'solver': solver},
                              {'initial': True, 'solver': solver, 'dim': dim, 'kind': kind, 'arg': arg, 'choices': ch.choices},
                              'SetRandomInitialPoints(%r,%r) produced member %r | choices=%r' % (lo, hi, m, ch.choices))
                    break
        else:
            x0, r = arg
            if pop[0] != [float(v) for v in x0]:
                T.violate({'clause': 'initial_guess_not_member0', 'solver': solver},
                          {'initial': True, 'solver': solver, 'dim': dim, 'kind': kind, 'arg': arg, 'choices': ch.choices},
                          'SetInitialPoints(%r) left population[0]=%r' % (x0, pop[0]))
            for m in pop[1:]:
                ok = True
                for v, c in zip(m, x0):
                    a, b = (c * (1 - r), c * (1 + r)) if c != 0 else (-r, r)
                    if not (min(a, b) <= v <= max(a, b)):
                        ok = False
                if not ok:
                    T.violate({'clause': 'initial_point_outside_limits', 'call': 'SetInitialPoints', 'solver': solver},
                              {'initial': True, 'solver': solver, 'dim': dim, 'kind': kind, 'arg': arg, 'choices': ch.choices},
                              'SetInitialPoints(%r, radius=%r) produced member %r' % (x0, r, m))
                    break
    T.sample({'initial_points': [solver, dim, kind, arg]})
    return T


def _dispatch(item):
    kind, payload = item
    return {'A': shard_ops, 'B': shard_special, 'C': shard_scripted, 'I': shard_initial}[kind](payload)


def run(ctx):
    depth = 5 if ctx.thorough else 4
    items = []
    starts = {'sphere': [3.0, -2.0], 'steps': [0.8, -0.4]} if ctx.thorough else {'sphere': [3.0, -2.0]}
    nA = 0
    for solver in solverlab.SOLVERS:
        for cost, x0 in starts.items():
            for (t, c) in MODES:
                cfg = {'solver': solver, 'dim': 2, 'cost': cost, 'x0': x0, 'seed': ctx.seed, 'term': 'never', 'horizon': 4000}
                for i in range(6):
                    items.append(('A', (cfg, t, c, depth, (i,)))); nA += 1
    special = []
    for solver in solverlab.SOLVERS:
        for box in ('degen', 'onesided', 'none_sided', 'neg', 'unit'):
            for (t, c) in MODES:
                for dim in (1, 2):
                    for con in (None, 'push/pure'):
                        for x0 in (solverlab.STARTS[dim][0], solverlab.STARTS[dim][2]):
                            special.append({'solver': solver, 'dim': dim, 'cost': 'sphere', 'x0': x0, 'box': box, 'tight': t, 'clip': c,
                                            'constraint': con, 'seed': ctx.seed, 'term': 'never', 'horizon': 4000})
    # (D) a box given with int endpoints, replaced mid-run by a tighter one with non-integer endpoints (and other type changes)
    for solver in solverlab.SOLVERS:
        for first, then in (('intbox', 'fracbox'), ('fracbox', 'intbox'), ('intbox', 'shift'), ('unit', 'fracbox')):
            for (t, c) in MODES:
                for x0 in ([4.75, 0.25], [2.0, 2.0]):
                    special.append({'solver': solver, 'dim': 2, 'cost': 'sphere' if x0[0] > 4 else 'illq', 'x0': x0, 'box': first, 'then_box': then,
                                    'tight': t, 'clip': c, 'seed': ctx.seed, 'term': 'never', 'horizon': 4000})
    for i in range(0, len(special), 40):
        items.append(('B', (special[i:i + 40], 8 if ctx.thorough else 6)))
    # scripted random re-entry (clip=False), NM and Powell only (they draw nothing else)
    nC = 0
    for solver in ('NM', 'Powell'):
        for t in (None, True):
            for x0 in ([3.0, -2.0], [0.8, -0.4]):
                for con in (None, 'push/pure'):
                    cfg = {'solver': solver, 'dim': 2, 'cost': 'sphere', 'x0': x0, 'box': 'unit', 'tight': t, 'clip': False,
                           'constraint': con, 'seed': 0, 'term': 'never', 'horizon': 3000, 'instrument': False}
                    items.append(('C', (cfg, 3, 1 if not ctx.thorough else 2, None))); nC += 1
                    cfg2 = dict(cfg); cfg2.pop('box'); cfg2.pop('tight'); cfg2.pop('clip')
                    items.append(('C', (cfg2, 0, 1 if not ctx.thorough else 2,
                                        [['Step'], ['Step'], ['SetStrictRanges', 'unit', t, False], ['Step'], ['Step']]))); nC += 1
    # initial points: every draw
    for solver in ('NM', 'DE'):
        for dim in (1, 2):
            for lo, hi in (([-1.0] * dim, [2.0] * dim), ([-3.0] * dim, [-0.5] * dim), ([0.0] * dim, [0.0] * dim), ([None] * dim, [5.0] * dim),
                           ([0.0] * dim, [None] * dim), ([0.0, None][:dim], [None, 5.0][-dim:])):
                if solver == 'DE' and dim == 2 and not ctx.thorough and lo[0] in (0.0,):
                    continue
                items.append(('I', (solver, dim, 'random', (lo, hi))))
            for x0 in ([0.8, -0.4][:dim], [0.0, 2.0][:dim], [-3.0, 0.0][:dim]):
                items.append(('I', (solver, dim, 'guess', (x0, 0.05))))
    ctx.bounds = {'depth': depth, 'modes(tight,clip)': MODES, 'op_alphabet': alphabet('t', 'c'), 'A_shards': nA,
                  'special_box_configs': len(special), 'scripted_reentry_configs': nC, 'unit_alphabet': list(UNIT)}
    ctx.rule = ("(A) all op sequences <= depth over 6 ops per (solver, cost/start, mode); (B) special boxes x modes x dims x starts, Step^n; "
                "(C) clip=False random re-entry: every answer of every numpy/stdlib draw within a deviation bound (NM, Powell), incl. a box installed mid-run; "
                "(I) every draw of SetRandomInitialPoints / SetInitialPoints. non-trivial = shard/config distinct; for (C) configs with >1 distinct outcome")
    ctx.assumptions = ['DE solvers under clip=False use a seeded private generator (their strategy draws make the answer tree too large); NM/Powell are enumerated',
                       'an exception raised by SetStrictRanges is recorded in the histogram, not judged by this property']
    import os
    parts = os.environ.get('VERIF_PARTS')
    if parts:
        items = [it for it in items if it[0] in parts.split(',')]
    ctx.pmap(_dispatch, items)
    if ctx.tally.n.get('scripted_configs_capped_at_20000_executions'):
        ctx.cap('%d scripted clip=False configurations stopped at 20000 executions (deviation bound %d not completed for them; bound-1 level is complete)'
                % (ctx.tally.n['scripted_configs_capped_at_20000_executions'], 2))


def replay(case):
    T = Tally()
    if case.get('scripted'):
        bad, obs = _scripted_run(case['cfg'], case['nsteps'], tree.ReplayChooser(case['choices']), case.get('ops'))
        return bad
    if case.get('initial'):
        T2 = shard_initial((case['solver'], case['dim'], case['kind'], tuple(case['arg'])))
        return [v['detail'] for v in T2.violations.values()]
    graph.run_history(case['cfg'], case['ops'], Oracle, T)
    return [v['detail'] for v in T.violations.values()]
