"""C09 - ensemble solvers return the best member and account for all work.

(A) E1/E3: the product of an ensemble-configuration alphabet (ensemble type x bin layout / point count x
    nested solver x box x constraint x penalty x limits x termination x evaluation monitor x map x mode
    x cost) is run on the real LatticeSolver / BuckshotSolver / SparsitySolver and judged from outside:
    the harness owns the cost function (global call log that survives the library's deep / dill copies),
    the map (order, copying, which member is running, the start point handed to every member) and sees
    the state in which every member iteration begins.
(B) the one-line wrappers lattice / buckshot / sparsity with full_output=1; the ensemble they build is
    recovered from the closure handed to the map, so the same oracle applies to the returned tuple.
(C) E2: BuckshotSolver with every answer of every numpy `rand` entry in {0, 0.5, 1-eps}.
(A5/A6) range modes tight / clip through the class API and the wrappers' tightrange / cliprange, each member compared
    with a stand-alone nested solver (differential oracle); differential-evolution members (DE, DE2), whose best is
    kept apart from population[0].
(A7/A8) evaluation / step monitors that already hold 1 or 3 records when the ensemble starts (class API and the wrappers'
    evalmon= / itermon=), and one ensemble object solved twice in a row under raised limits.
(G) E3/E2 point generators: gridpts, samplepts / random_samples (every draw), fillpts (seeded),
    randomly_bin (every sort-key answer).
"""
import itertools, os
import numpy as np
from mc import tree, env, solverlab
from mc import c09_lab as lab
from mc.runner import Tally
from mc.solverlab import COSTS, inbox

ONE_MINUS = env.ONE_MINUS


def feq(a, b):
    return a == b or (a != a and b != b)


def vec(v):
    return tuple(float(a) for a in np.asarray(v, dtype=float).ravel())


def close(a, b, scale=1.0):
    """equal up to rounding of the grid arithmetic (a wrong cell is off by half a cell width)"""
    return len(a) == len(b) and all(abs(x - y) <= 1e-9 * max(1.0, scale) for x, y in zip(a, b))


# ------------------------------------------------------------------ independent pieces of the oracle
def cell_centres(box, nbins):
    """centres of the cells of the documented grid, in the documented (itertools.product) order"""
    lo, hi = box
    axes = []
    for l, h, n in zip(lo, hi, nbins):
        w = abs(h - l)
        axes.append([l + (2 * j + 1) * w / (2.0 * n) for j in range(n)])
    return [tuple(p) for p in itertools.product(*axes)]


def limits_kind(cfg):
    lim = cfg.get('limits')
    if not lim:
        return 'none'
    z = [n for n, v in zip(('maxiter', 'maxfun'), lim) if v == 0]
    return 'zero_' + '+'.join(z) if z else 'positive'


def objective(R, x):
    v = COSTS[R.cfg.get('cost', 'sphere')](tuple(x))
    p = float(R.pen(list(x))) if R.pen is not None else 0.0
    return v + p


def con_image(R, x):
    if R.con is None:
        return tuple(x)
    return tuple(float(v) for v in solverlab.Con(R.con.kind, False)(list(x)))


def _key(k):
    return k[1] if isinstance(k, tuple) else k


def member_limits(cfg, dim):
    G0, E0 = lab.default_limits(cfg['nested'], dim, cfg.get('npop', 4))
    lim = cfg.get('twice') or cfg.get('limits') or [None, None]     # a second solve runs under the raised limits
    return (G0 if lim[0] is None else lim[0]), (E0 if lim[1] is None else lim[1])


def past_stop(tr, G, EV):
    """C05 sense, from the harness's own counts: member iterations that began although a stop condition held"""
    out = []
    seen, made = {}, {}
    pos = 0
    for ev in tr.iters:
        while pos < ev['n0']:
            key = _key(tr.calls[pos][0])
            made[key] = made.get(key, 0) + 1
            pos += 1
        i = _key(ev['m'])
        k = seen.get(i, 0)
        seen[i] = k + 1
        if k == 0:
            continue            # the initial evaluation
        why = []
        if k - 1 >= G: why.append('generations %d >= limit %d' % (k - 1, G))     # k-1 iterations really completed after the initial one
        if made.get(i, 0) >= EV: why.append('evaluations %d >= limit %d' % (made.get(i, 0), EV))
        if ev['term']: why.append('its termination condition already holds')
        if why:
            out.append((why, i, k))
    return out


# ------------------------------------------------------------------ the oracle
def judge(R):
    """-> list of (sig dict, detail) for one execution"""
    cfg = R.cfg
    tr = R.trace
    out = []
    path = 'solve' if cfg.get('mode', 'solve') == 'solve' else 'step'

    legacy = '+'.join(n for n, k in (('eval', 'em_preload'), ('step', 'sm_preload')) if cfg.get(k))

    def bad(clause, detail, **extra):
        sig = {'clause': clause, 'ens': cfg['ens'], 'path': path}
        if legacy:
            sig['legacy_monitor_records'] = legacy
        sig.update(extra)
        out.append((sig, detail))

    if R.error is not None:
        name, msg, tb = R.error
        if name == 'Horizon':
            bad('runaway', 'no stop within the horizon: %s' % msg)
            G, EV = member_limits(cfg, R.dim)
            for why, i, k in past_stop(tr, G, EV)[:1]:
                bad('member_ran_past_stop', 'member %r began iteration %d although %s' % (i, k, '; '.join(why)), reason=why[0].split(' ')[0])
        else:
            if cfg.get('sm_preload') and cfg['nested'] in ('NM', 'Powell'):
                # legacy step-monitor records make a nested solver believe it has already run; when a stand-alone
                # nested solver handed the same records fails the same way the ensemble adds nothing: recorded, not judged
                import mystic.termination as mt
                dim = R.dim
                x0 = tr.starts.get(0) or tuple(0.5 * (l + h) for l, h in zip(*lab.box_of(cfg.get('box') or 'unit', dim)))
                ref = lab.solo(cfg, x0, R.term if R.term is not None else mt.NormalizedChangeOverGeneration(1e-4), cfg['sm_preload'])
                if ref[0] == 'error' and ref[1] == name:
                    R.note = 'nested_solver_itself_raises_with_legacy_step_records:' + name
                    return out
            where = [l.strip() for l in tb.splitlines() if l.strip().startswith('File "')]
            out.append(({'clause': 'raised', 'error': name, 'limits': limits_kind(cfg), 'path': path, 'api': cfg.get('api', 'class')},
                        '%s %s raised %s: %s (%s)' % (cfg['ens'], 'wrapper' if cfg.get('api') == 'wrapper' else cfg.get('mode', 'solve'),
                                                     name, msg, where[-1] if where else '')))
        return out
    s = R.solver
    calls = tr.calls
    want_n = lab.requested_members(cfg)
    ret = R.ret
    if s is None:
        # wrapper run without a map: only the returned tuple and the call log are visible
        x, fval, it, fc, warn, allfc = ret[:6]
        if allfc != len(calls):
            bad('wrapper_allfuncalls', 'allfuncalls=%r but the cost was called %d times' % (allfc, len(calls)))
        logged = dict((c[1], c[2]) for c in calls)
        if np.isfinite(fval) and not cfg.get('sm_preload') and (vec(x) not in logged or not feq(objective(R, vec(x)), float(fval))):
            bad('wrapper_fopt', 'fopt=%r at xopt=%r: not the objective at an evaluated point' % (fval, vec(x)))
        return out
    members = list(s._allSolvers)
    # ---- 1. as many members as requested
    if len(members) != want_n or any(m is None for m in members):
        bad('member_count', '%d member solvers (None: %d) for %d requested' % (len(members), sum(m is None for m in members), want_n))
        return out
    if len(set(id(m) for m in members)) != len(members):
        bad('members_shared', 'the same solver object appears twice among the members')
    if len(members) > 1:
        pops = [id(m.population) for m in members]
        mons = [id(m._stepmon) for m in members]
        if len(set(pops)) != len(pops) or len(set(mons)) != len(mons):
            bad('members_shared', 'members share a population or a step monitor object')
    for k, n in enumerate(tr.map_sizes):
        if n != want_n:
            bad('member_count', 'map call %d was handed %d work items for %d requested members' % (k, n, want_n))
            break
    by = {}
    for k, x, v in calls:
        by.setdefault(_key(k), []).append((x, v))
    stray = [k for k in by if not (isinstance(k, int) and 0 <= k < want_n)]
    if stray:
        bad('unattributed_calls', 'cost calls made outside any member work item: keys %r' % (stray[:3],))
    # ---- 2. best member
    E = [float(np.asarray(m.bestEnergy).ravel()[0]) for m in members]
    X = [vec(m.bestSolution) for m in members]
    allE = [float(np.asarray(e).ravel()[0]) for e in s._all_bestEnergy]
    allX = [vec(x) for x in s._all_bestSolution]
    if not all(feq(a, b) for a, b in zip(E, allE)) or allX != X:
        bad('all_best_lists', '_all_bestEnergy/_all_bestSolution %r / %r differ from the members %r / %r' % (allE, allX, E, X))
    bestE = float(np.asarray(s.bestEnergy).ravel()[0])
    bestX = vec(s.bestSolution)
    mn = min(E)
    if not feq(bestE, mn):
        bad('best_energy_not_min', 'bestEnergy=%r but the member best energies are %r (min %r)' % (bestE, E, mn))
    elif not any(feq(e, mn) and x == bestX for e, x in zip(E, X)):
        bad('best_solution_not_members', 'bestSolution=%r is not the solution of a member with the minimal energy %r (members %r)' % (bestX, mn, X))
    if np.isfinite(bestE) and not cfg.get('sm_preload') and not feq(objective(R, bestX), bestE):
        bad('best_energy_not_cost_at_best', 'the ensemble reports bestSolution=%r with bestEnergy=%r but cost+penalty there is %r' % (bestX, bestE, objective(R, bestX)))
    # ---- 3. accounting
    ae = [int(v) for v in s._all_evals]
    tot = int(s._total_evals)
    if tot != sum(ae) or tot != len(calls):
        bad('total_evals', '_total_evals=%d, sum(_all_evals)=%d %r, real cost calls=%d' % (tot, sum(ae), ae, len(calls)))
    else:
        mine = [len(by.get(i, ())) for i in range(want_n)]
        if mine != ae and not stray:
            bad('member_evals', '_all_evals=%r but the members really made %r calls' % (ae, mine))
    # ---- 4. starts
    box = R.box
    dim = R.dim
    legacy_steps = bool(cfg.get('sm_preload'))
    starts = [tr.starts.get(i) for i in range(want_n)] if tr.starts else None
    firsts = [by[i][0][0] if by.get(i) else None for i in range(want_n)]
    if starts is not None:
        if any(p is None for p in starts):
            bad('member_count', 'no starting point was handed to members %r' % ([i for i, p in enumerate(starts) if p is None],))
            starts = None
    if starts is not None:
        if box is not None:
            for i, p in enumerate(starts):
                if not inbox(p, box):
                    bad('start_outside_box', 'member %d starts at %r outside the strict ranges %r' % (i, p, box))
                    break
        for i, p in enumerate(starts):
            img = con_image(R, p)
            if legacy_steps:
                break
            if firsts[i] is not None and (box is None or inbox(img, box)) and firsts[i] != img:
                bad('first_call_not_start', 'member %d was handed the start %r (constrained image %r) but first evaluated %r' % (i, p, img, firsts[i]))
                break
    elif box is not None:
        for i, p in enumerate(firsts):
            if p is not None and not inbox(p, box):
                bad('start_outside_box', 'member %d first evaluated %r outside the strict ranges %r' % (i, p, box))
                break
    if cfg['ens'] == 'lattice':
        gbox = box if box is not None else ([-1e3] * dim, [1e3] * dim)
        obs = starts
        if obs is None and all(p is not None for p in firsts) and R.con is None and not legacy_steps:
            obs = firsts
        if obs is not None:
            nb = cfg['nbins']
            if isinstance(nb, int):
                nb = [len(set(p[j] for p in obs)) if gbox[0][j] != gbox[1][j] else None for j in range(dim)]
                free = [j for j, n in enumerate(nb) if n is None]
                known = int(np.prod([n for n in nb if n is not None])) if any(n is not None for n in nb) else 1
                if free:   # degenerate sides hide their bin count: give them what is left
                    rest = want_n // known if known and want_n % known == 0 else 1
                    for j in free:
                        nb[j] = rest if j == free[0] else 1
                ordered = False
            else:
                ordered = True
            cen = cell_centres(gbox, nb)
            scale = max(abs(v) for v in list(gbox[0]) + list(gbox[1]))
            if int(np.prod(nb)) != want_n or len(cen) != len(obs) or not all(close(a, b, scale) for a, b in zip(sorted(cen), sorted(obs))):
                bad('lattice_start_not_cell_centre', 'starts %r are not the centres %r of the %r grid on %r' % (obs, cen, nb, gbox))
            elif ordered and not all(close(a, b, scale) for a, b in zip(cen, obs)):
                bad('lattice_start_order', 'member i does not start in cell i: starts %r, cells in documented order %r' % (obs, cen))
    # ---- 5. members carry the ensemble's configuration
    import mystic.termination as mt
    G, EV = member_limits(cfg, dim)
    want_term = mt.state(R.term) if R.term is not None else None
    for i, m in enumerate(members):
        probs = []
        if box is not None:
            if not m._useStrictRange or vec(m._strictMin) != vec(box[0]) or vec(m._strictMax) != vec(box[1]):
                probs.append('strict ranges %r..%r (in use: %r) instead of %r' % (vec(m._strictMin), vec(m._strictMax), m._useStrictRange, box))
        elif m._useStrictRange:
            probs.append('strict ranges in use although the ensemble has none')
        if box is not None and (m._useTightRange, m._useClipRange) != (cfg.get('tight'), cfg.get('clip')):
            probs.append('range mode (tight=%r, clip=%r) instead of (tight=%r, clip=%r)' % (m._useTightRange, m._useClipRange, cfg.get('tight'), cfg.get('clip')))
        ctag = getattr(m._constraints, 'tag', None)
        if ctag != (R.con.tag if R.con is not None else None):
            probs.append('constraints %r instead of %r' % (ctag or m._constraints, R.con.tag if R.con is not None else 'none'))
        ptag = getattr(m._penalty, 'tag', None)
        if ptag != (R.pen.tag if R.pen is not None else None):
            probs.append('penalty %r instead of %r' % (ptag or m._penalty, R.pen.tag if R.pen is not None else 'none'))
        if m._maxiter != G or m._maxfun != EV:
            probs.append('limits (%r, %r) instead of (%r, %r)' % (m._maxiter, m._maxfun, G, EV))
        if want_term is not None:
            try:
                got = mt.state(m._termination)
            except Exception as e:
                got = repr(e)
            if got != want_term:
                probs.append('termination %r instead of %r' % (got, want_term))
        if probs:
            bad('member_config', 'member %d carries %s' % (i, '; '.join(probs)))
            break
    # ---- 6. members obey it
    if box is not None:
        for k, x, v in calls:
            if not inbox(x, box):
                bad('evaluated_outside_box', 'member %r evaluated %r outside the strict ranges %r' % (_key(k), x, box))
                break
    if R.con is not None:
        for k, x, v in calls:
            if con_image(R, x) != x:
                bad('evaluated_unconstrained', 'member %r evaluated %r which violates the constraint %s' % (_key(k), x, R.con.tag))
                break
    # member evaluation monitors: the legacy records the ensemble was handed, then exactly this member's calls
    if (cfg.get('evalmon') or cfg.get('em_preload')) and cfg['nested'] != 'DE2' and not stray and not (legacy_steps and cfg['ens'] == 'sparsity'):
        L0 = cfg.get('em_preload') or 0
        for i, m in enumerate(members):
            mine = [c[0] for c in by.get(i, ())]
            ys = list(m._evalmon._y)
            xs = [vec(x) for x in m._evalmon._x]
            if len(ys) != L0 + len(mine) or (mine and xs[-len(mine):] != mine):
                bad('member_monitor', 'member %d made %d cost calls and was handed %d legacy records, its evaluation monitor holds %d values / %d points (tail matches the calls: %r)'
                    % (i, len(mine), L0, len(ys), len(xs), bool(mine) and xs[-len(mine):] == mine))
                break
            if len(xs) != len(ys):
                pass    # SparsitySolver._InitialPoints appends the step monitor's points to the evaluation monitor it was given: recorded by tally_run, not judged
    for i, m in enumerate(members):
        if legacy_steps:
            break
        if np.isfinite(E[i]):
            logged = dict(by.get(i, ()))
            if X[i] not in logged or not feq(objective(R, X[i]), E[i]):
                bad('member_energy', 'member %d reports best %r with energy %r; cost+penalty there is %r; evaluated by it: %r'
                    % (i, X[i], E[i], objective(R, X[i]), X[i] in logged))
                break
    seen = {}
    for ev in tr.iters:
        seen[_key(ev['m'])] = seen.get(_key(ev['m']), 0) + 1
    for why, i, k in ([] if legacy_steps else past_stop(tr, G, EV)[:1]):
        bad('member_ran_past_stop', 'member %r began iteration %d although %s' % (i, k, '; '.join(why)), reason=why[0].split(' ')[0])
    for i, m in enumerate(members):
        if legacy_steps:
            break
        msg = m.Terminated(info=True)
        if not msg:
            bad('member_unstopped', 'the solve returned but member %d meets none of its stop conditions (generations %d, evaluations %d)'
                % (i, m.generations, m.evaluations))
            break
        made = len(by.get(i, ()))
        iters = seen.get(i, 0) - 1
        if msg.startswith('EvaluationLimits'):
            if not (iters >= G or made >= EV):
                bad('member_stop_untrue', 'member %d stopped with %r after %d iterations / %d calls (limits %d / %d)' % (i, msg[:70], iters, made, G, EV))
                break
        elif not msg.startswith('SolverInterrupt'):
            try:
                ok = bool(m._termination(m))
            except Exception:
                ok = False
            if not ok:
                bad('member_stop_untrue', 'member %d stopped with %r but its termination condition is false' % (i, msg[:70]))
                break
    # ---- 7. differential: every member behaves like a stand-alone nested solver given the same start and configuration
    if cfg.get('diff') and not legacy_steps and not cfg.get('twice') and cfg['nested'] in ('NM', 'Powell') and starts is not None and cfg.get('clip') is not False and not stray:
        term = R.term if R.term is not None else mt.NormalizedChangeOverGeneration(1e-4)
        for i, m in enumerate(members):
            ref = lab.solo(cfg, starts[i], term)
            if ref[0] == 'error':
                bad('standalone_raised', 'a stand-alone %s solver with the ensemble\'s configuration started at %r raised %s: %s' % (cfg['nested'], starts[i], ref[1], ref[2]))
                break
            mine = by.get(i, [])
            if mine != ref[0]:
                k = next((j for j, (a, b) in enumerate(zip(mine, ref[0])) if a != b), min(len(mine), len(ref[0])))
                bad('member_differs_from_standalone',
                    'member %d made %d cost calls, a stand-alone %s solver with the same start %r, box/range mode, constraint, penalty, limits and termination makes %d; '
                    'first difference at call %d: member %r, stand-alone %r' % (i, len(mine), cfg['nested'], starts[i], len(ref[0]), k,
                                                                               mine[k] if k < len(mine) else None, ref[0][k] if k < len(ref[0]) else None),
                    tight=cfg.get('tight'), clip=cfg.get('clip'))
                break
            if ref[1] != X[i] or not feq(ref[2], E[i]):
                bad('member_differs_from_standalone', 'member %d ends at (%r, %r), the stand-alone solver at (%r, %r)' % (i, X[i], E[i], ref[1], ref[2]),
                    tight=cfg.get('tight'), clip=cfg.get('clip'))
                break
    # ---- wrappers: the returned tuple
    if ret is not None:
        x, fval, it, fc, warn, allfc = ret[:6]
        if vec(x) != bestX or not feq(float(fval), bestE):
            bad('wrapper_best', 'wrapper returned (%r, %r), the ensemble holds (%r, %r)' % (vec(x), fval, bestX, bestE))
        if allfc != len(calls):
            bad('wrapper_allfuncalls', 'allfuncalls=%r but the cost was called %d times' % (allfc, len(calls)))
    return out


def observe(R):
    """digest-able summary of one execution (states / histograms)"""
    if R.error is not None:
        return ('error', R.error[0])
    s = R.solver
    if s is None:
        return ('tuple',) + tuple(vec(v) for v in R.ret[:6])
    return (vec(s.bestSolution), vec(s.bestEnergy), tuple(int(v) for v in s._all_evals), tuple(vec(e) for e in s._all_bestEnergy))


def tally_run(T, R, viol, case):
    cfg = R.cfg
    T.count('traces')
    T.count('evaluations', len(R.trace.calls))
    T.count('transitions', len(R.trace.iters) + len(R.trace.map_sizes))
    T.state((sorted(cfg.items(), key=str), observe(R)))
    T.hist('ensemble', cfg['ens'])
    T.hist('mode', cfg.get('mode', 'solve'))
    T.hist('map', cfg['map'] if isinstance(cfg.get('map'), str) else ('perm' if cfg.get('map') else 'none'))
    if getattr(R, 'note', None):
        T.hist('outcome', R.note)
    elif R.error is not None:
        T.hist('outcome', 'raised:' + R.error[0] + ':' + limits_kind(cfg))
    else:
        T.hist('outcome', 'returned')
        s = R.solver
        if s is not None:
            E = [float(np.asarray(m.bestEnergy).ravel()[0]) for m in s._allSolvers if m is not None]
            T.hist('members', len(E))
            if len(E) > 1:
                T.hist('argmin_member', int(np.argmin(E)))
                T.hist('best_energy_tie', sum(1 for e in E if e == min(E)) > 1)
                if len(set(E)) > 1:
                    T.nontriv(sorted(cfg.items(), key=str))
            for m in s._allSolvers:
                if m is not None:
                    T.hist('member_stop', (m.Terminated(info=True) or 'none').split(' ')[0])
            ev = [int(v) for v in s._all_evals]
            T.hist('members_with_unequal_evals', len(set(ev)) > 1)
            if cfg.get('em_preload') or cfg.get('sm_preload'):
                T.hist('legacy_monitor_records(eval,step)', (cfg.get('em_preload') or 0, cfg.get('sm_preload') or 0))
                T.hist('member_evalmon_points_vs_values_mismatch', any(len(m._evalmon._x) != len(m._evalmon._y) for m in s._allSolvers if m is not None))
            if cfg.get('twice'):
                T.hist('second_solve_made_calls', len(R.trace.calls) > getattr(R, 'calls_first', 0))
    for sig, detail in viol:
        T.violate(sig, case, detail + ' | cfg=%s' % _short(cfg) + (' choices=%r' % case['choices'] if case.get('choices') else ''))


def _short(cfg):
    return {k: v for k, v in cfg.items() if k not in ('horizon',) and v is not None}


# ------------------------------------------------------------------ shards
def shard_runs(cfgs):
    T = Tally()
    for cfg in cfgs:
        R = lab.execute(cfg)
        tally_run(T, R, judge(R), {'cfg': cfg})
    T.sample({'run': _short(cfgs[0])}, limit=1)
    return T


def shard_wrapper_pairs(cfgs):
    """wrapper with the traced default map (full oracle) and with no map argument at all (same tuple)"""
    T = Tally()
    for cfg in cfgs:
        R = lab.execute(cfg)
        tally_run(T, R, judge(R), {'cfg': cfg})
        cfg2 = dict(cfg, map='none')
        R2 = lab.execute(cfg2)
        viol = judge(R2)
        if R.error is None and R2.error is None:
            a = tuple(vec(v) for v in R.ret[:6])
            b = tuple(vec(v) for v in R2.ret[:6])
            if a != b:
                viol.append(({'clause': 'wrapper_default_map_differs', 'ens': cfg['ens'], 'path': 'solve'},
                             'wrapper without a map returned %r, with the traced python_map %r' % (b, a)))
        elif (R.error is None) != (R2.error is None):
            viol.append(({'clause': 'wrapper_default_map_differs', 'ens': cfg['ens'], 'path': 'solve'},
                         'wrapper without a map: %r; with the traced python_map: %r' % (R2.error and R2.error[:2], R.error and R.error[:2])))
        tally_run(T, R2, viol, {'cfg': cfg2})
    T.sample({'wrapper': _short(cfgs[0])}, limit=1)
    return T


def shard_scripted(item):
    """every answer of every numpy rand entry behind BuckshotSolver's starting points"""
    cfg, bound = item
    T = Tally()
    outcomes = set()

    def run(ch):
        R = lab.execute(cfg, ch)
        return R, judge(R)
    info = {}
    for ch, (R, viol) in tree.explore(run, bound=bound, max_executions=5000, info=info):
        tally_run(T, R, viol, {'cfg': cfg, 'choices': ch.choices})
        T.count('transitions', len(ch.trace))
        outcomes.add(observe(R))
        if R.trace.starts and R.box is not None:
            onface = any(any(v == l or v == h for v, l, h in zip(p, R.box[0], R.box[1])) for p in R.trace.starts.values())
            T.hist('scripted_start_on_box_face', onface)
    if info.get('capped'):
        T.count('scripted_capped')
    T.hist('scripted_distinct_outcomes', min(len(outcomes), 100))
    T.sample({'scripted': _short(cfg)}, limit=1)
    return T


# ------------------------------------------------------------------ (G) point generators
def shard_gridpts(_):
    from mystic.math.grid import gridpts
    T = Tally()
    schemes = {'distinct': lambda j, k: 10 * (j + 1) + k, 'float': lambda j, k: -1.0 + 0.75 * k + j, 'repeat': lambda j, k: float(k // 2)}
    for d in (1, 2, 3):
        for sizes in itertools.product((1, 2, 3, 4), repeat=d):
            for name, f in schemes.items():
                q = [[f(j, k) for k in range(n)] for j, n in enumerate(sizes)]
                T.count('traces'); T.count('transitions')
                qq = [list(a) for a in q]
                try:
                    got = gridpts(qq)
                except Exception as e:
                    T.violate({'clause': 'gridpts_raised', 'error': type(e).__name__}, {'gen': 'gridpts', 'q': q}, 'gridpts(%r) raised %s: %s' % (q, type(e).__name__, e))
                    continue
                want = [list(p) for p in itertools.product(*q)]
                got = [list(p) for p in got]
                T.state(('gridpts', q))
                if len(want) > 1:
                    T.nontriv(('gridpts', q))
                T.hist('gridpts_npoints', len(want))
                if got != want:
                    clause = 'gridpts_order' if sorted(got) == sorted(want) else 'gridpts_not_product'
                    T.violate({'clause': clause, 'dims': d}, {'gen': 'gridpts', 'q': q}, 'gridpts(%r) = %r, Cartesian product in documented order is %r' % (q, got, want))
                if qq != q:
                    T.violate({'clause': 'gridpts_mutates_input'}, {'gen': 'gridpts', 'q': q}, 'gridpts changed its argument to %r' % (qq,))
    T.sample({'gridpts': [[10, 11], [20, 21, 22]]}, limit=1)
    return T


GEN_BOXES = {1: [([-1.0], [2.0]), ([0.25], [3.0]), ([0.5], [0.5]), ([-3.0], [-0.5])],
             2: [([-1.0, -1.0], [2.0, 2.0]), ([0.25, -4.0], [3.0, -2.0]), ([0.5, -1.0], [0.5, 2.0])],
             3: [([-1.0, 0.25, -3.0], [2.0, 3.0, -0.5]), ([0.5, -1.0, 0.0], [0.5, 2.0, 8.0])]}


def shard_samples(item):
    dim, npts, which = item
    from mystic.math.grid import samplepts
    from mystic.math.samples import random_samples
    T = Tally()
    for lo, hi in GEN_BOXES[dim]:
        def run(ch):
            rng = env.ScriptedRandom(ch, unit=(0.0, 0.5, ONE_MINUS), vector_draws='each')
            with env.owned_random(rng):
                if which == 'samplepts':
                    pts = samplepts(list(lo), list(hi), npts)
                else:
                    pts = random_samples(list(lo), list(hi), npts).T.tolist()
            return pts, len(rng.log)
        for ch, (pts, ndraw) in tree.explore(run):
            T.count('traces'); T.count('transitions', len(ch.trace) + 1)
            T.state((which, lo, hi, npts, tuple(ch.choices)))
            if any(ch.choices):
                T.nontriv((which, lo, hi, npts, tuple(ch.choices)))
            T.hist('sample_choice_points', len(ch.trace))
            case = {'gen': which, 'lo': lo, 'hi': hi, 'npts': npts, 'choices': ch.choices}
            if len(pts) != npts or any(len(p) != dim for p in pts):
                T.violate({'clause': 'sample_shape', 'gen': which}, case, '%s(%r,%r,%d) returned %d points of shape %r' % (which, lo, hi, npts, len(pts), [len(p) for p in pts][:3]))
                continue
            if len(ch.trace) != dim * npts:
                T.violate({'clause': 'sample_draws_not_owned', 'gen': which}, case, '%d draws seen for %d coordinates' % (len(ch.trace), dim * npts))
            for p in pts:
                if not inbox(p, (lo, hi)):
                    T.violate({'clause': 'sample_outside_range', 'gen': which}, case,
                              '%s(%r,%r,%d) produced %r outside the range | choices=%r' % (which, lo, hi, npts, p, ch.choices))
                    break
            T.hist('sample_on_face', any(any(v == l or v == h for v, l, h in zip(p, lo, hi)) for p in pts))
    T.sample({'generator': which, 'dim': dim, 'npts': npts}, limit=1)
    return T


class ScriptedDist(object):
    """a user distribution for random_samples(dist=...): every entry of every call is a choice point"""

    def __init__(self, ch, values):
        self.ch, self.values, self.ncalls = ch, values, 0

    def __call__(self, shape):
        self.ncalls += 1
        if self.ncalls > 6:
            raise lab.Horizon('resampling did not end')
        n = int(np.prod(shape))
        vals = [self.values[self.ch.choose(len(self.values), 'dist')] for _ in range(n)]
        return np.array(vals, dtype=float).reshape(shape)


def shard_samples_dist(item):
    dim, npts, bound = item
    from mystic.math.samples import random_samples
    T = Tally()
    lo, hi = GEN_BOXES[dim][0]
    values = (0.5, -7.0, lo[0], hi[0], 9.0, 1.25)   # inside first (default answer), then below / on faces / above
    for clip in (False, True):
        def run(ch):
            d = ScriptedDist(ch, values)
            try:
                pts = random_samples(list(lo), list(hi), npts, dist=d, clip=clip).T.tolist()
            except lab.Horizon:
                return None
            return pts
        for ch, pts in tree.explore(run, bound=bound):
            T.count('traces'); T.count('transitions', len(ch.trace) + 1)
            T.state(('dist', dim, npts, clip, tuple(ch.choices)))
            if pts is None:
                T.hist('dist_outcome', 'resampling_horizon')
                continue
            if any(ch.choices):
                T.nontriv(('dist', dim, npts, clip, tuple(ch.choices)))
            T.hist('dist_outcome', 'clip' if clip else 'resampled_%d_draws' % min(len(ch.trace), 9))
            for p in pts:
                if not inbox(p, (lo, hi)):
                    T.violate({'clause': 'sample_outside_range', 'gen': 'random_samples(dist)', 'clip': clip},
                              {'gen': 'dist', 'dim': dim, 'npts': npts, 'clip': clip, 'choices': ch.choices},
                              'random_samples(%r,%r,%d,dist,clip=%r) produced %r outside the range | choices=%r' % (lo, hi, npts, clip, p, ch.choices))
                    break
    T.sample({'generator': 'random_samples(dist)', 'dim': dim, 'npts': npts}, limit=1)
    return T


def _fill_one(case):
    from mystic.math.grid import fillpts
    lo, hi = case['lo'], case['hi']
    rng = env.SeededRandom(case['seed'])
    data = None if case['data'] is None else [list(p) for p in case['data']]
    with env.owned_random(rng):
        pts = fillpts(list(lo), list(hi), case['npts'], data, case['rtol'])
    return pts


def shard_fillpts(cases):
    T = Tally()
    for case in cases:
        T.count('traces'); T.count('transitions', case['npts'])
        try:
            pts = _fill_one(case)
        except Exception as e:
            T.violate({'clause': 'fillpts_raised', 'error': type(e).__name__}, dict(case, gen='fillpts'), 'fillpts raised %s: %s | %r' % (type(e).__name__, e, case))
            continue
        T.state(('fillpts', repr(case), repr(pts)))
        T.nontriv(('fillpts', repr(case)))
        lo, hi = case['lo'], case['hi']
        if len(pts) != case['npts']:
            T.violate({'clause': 'fillpts_count'}, dict(case, gen='fillpts'), 'fillpts returned %d points for npts=%d | %r' % (len(pts), case['npts'], case))
        for p in pts:
            if len(p) != len(lo) or not inbox([float(v) for v in p], (lo, hi)):
                T.violate({'clause': 'fillpts_outside_range'}, dict(case, gen='fillpts'), 'fillpts produced %r outside [%r, %r] | %r' % (p, lo, hi, case))
                break
        T.hist('fillpts_on_face', any(any(v == l or v == h for v, l, h in zip(p, lo, hi)) for p in pts))
    T.sample({'fillpts': cases[0]}, limit=1)
    return T


UNIT5 = (0.0, 0.25, 0.5, 0.75, ONE_MINUS)


def _is_prime(n):
    return n > 1 and all(n % k for k in range(2, int(n ** 0.5) + 1))


def shard_randomly_bin(item):
    """the variant LatticeSolver uses (ones=True, exact=True): every answer of every random() over a 5-value alphabet
    (every weak order of <= 5 sort keys); the other three variants: 3-value alphabet, deviation bound"""
    N, ndims, bound = item
    from mystic.math.grid import randomly_bin
    T = Tally()
    for ndim in ndims:
        for ones in (True, False):
            for exact in (True, False):
                main = ones and exact
                def run(ch):
                    rng = env.ScriptedRandom(ch, unit=UNIT5 if main else (0.0, 0.5, ONE_MINUS))
                    with env.owned_random(rng):
                        return randomly_bin(N, ndim, ones=ones, exact=exact)
                results = set()
                for ch, bins in tree.explore(run, bound=None if main else bound):
                    T.count('traces'); T.count('transitions', len(ch.trace) + 1)
                    bins = [int(b) for b in bins]
                    results.add(tuple(bins))
                    want = N - 1 if (not exact and N > 3 and _is_prime(N)) else N
                    case = {'gen': 'randomly_bin', 'N': N, 'ndim': ndim, 'ones': ones, 'exact': exact, 'choices': ch.choices}
                    if N == 0:      # not a request for bins: recorded, not judged
                        T.hist('randomly_bin_N0_length_is_ndim', len(bins) == ndim)
                        continue
                    prod = int(np.prod(bins)) if bins else 1
                    if prod != want:
                        T.violate({'clause': 'randomly_bin_product', 'ones': ones, 'exact': exact}, case,
                                  'randomly_bin(%d,%d,ones=%r,exact=%r) = %r, product %d != %d | choices=%r' % (N, ndim, ones, exact, bins, prod, want, ch.choices))
                    if len(bins) != ndim:
                        T.violate({'clause': 'randomly_bin_length', 'ones': ones, 'exact': exact}, case,
                                  'randomly_bin(%d,%d,ones=%r,exact=%r) = %r has %d entries | choices=%r' % (N, ndim, ones, exact, bins, len(bins), ch.choices))
                for b in results:
                    T.state(('rb', N, ndim, ones, exact, b))
                if len(results) > 1:
                    T.nontriv(('rb', N, ndim, ones, exact))
                T.hist('randomly_bin_distinct_layouts', len(results))
    T.sample({'randomly_bin': [N, list(ndims)]}, limit=1)
    return T


# ------------------------------------------------------------------ enumeration
def _dispatch(item):
    import time
    kind, payload = item
    t0 = time.process_time()
    T = _dispatch0(item)
    T.count('cpu_centiseconds_part_' + kind, int(100 * (time.process_time() - t0)))
    return T


def _dispatch0(item):
    kind, payload = item
    return {'R': shard_runs, 'W': shard_wrapper_pairs, 'S': shard_scripted, 'Ggrid': shard_gridpts, 'Gsamp': shard_samples,
            'Gdist': shard_samples_dist, 'Gfill': shard_fillpts, 'Grb': shard_randomly_bin}[kind](payload)


def layouts(thorough):
    """(ens, layout fields) in simplest-first order"""
    out = []
    for nb in [[1], [2], [3]] + [list(p) for p in itertools.product((1, 2, 3), repeat=2)] + ([[2, 1, 2]] if thorough else []):
        out.append({'ens': 'lattice', 'nbins': nb})
    for dim in (1, 2):
        for npts in (1, 2, 3) + ((5,) if thorough else ()):
            out.append({'ens': 'buckshot', 'dim': dim, 'npts': npts})
    for dim in (1, 2):
        for npts in (1, 2) + ((3, 5) if thorough else ()):
            out.append({'ens': 'sparsity', 'dim': dim, 'npts': npts})
    return out


LIMITS_Q = [[3, None], [None, 7], [0, None], [None, 0]]
LIMITS_T = LIMITS_Q + [[2, 5], [0, 0]]


def configs(ctx):
    """the (A) product, as a list of configurations"""
    th = ctx.thorough
    seed = ctx.seed
    nested = ['NM', 'Powell'] + (['DE'] if th else [])
    modes = ['solve', 'stepsolve', 'steploop']
    out = []
    lay = layouts(th)
    # A1 accounting / selection: every layout x nested x mode x map x evalmon x cost, limits on, plain box
    maps = ['none', 'default', 'rev', 'copy'] + (['copyrev'] if th else [])
    for L in lay:
        slow = L['ens'] == 'sparsity'
        for nst in nested:
            for mode in modes:
                for mp in maps:
                    for em in (False, True):
                        for cost in ('sphere', 'steps'):
                            lims = [[3, None], [None, 7]] + ([[2, 5]] if th and cost == 'sphere' else [])
                            if slow and not th and (cost == 'steps' or mp in ('none',)):
                                continue
                            if mp == 'copy' and mode != 'solve' and not th and (requested(L) > 3 or cost == 'steps'):
                                continue    # dill copies of every member on every round: small ensembles only (quick)
                            if cost == 'steps' and (mp in ('none', 'copy') or em) and not th:
                                continue    # the tie-rich cost under the two plain maps, no evaluation monitor (quick)
                            if slow and th and (mp == 'copyrev' or (L['npts'] > 3 and mode == 'stepsolve')):
                                continue
                            for lim in lims:
                                out.append(dict(L, nested=nst, box='unit', con=None, pen=None, limits=lim, term='never',
                                                evalmon=em, map=mp, mode=mode, cost=cost, seed=seed))
    # A2 configuration carried and obeyed: box x constraint x penalty x limits x termination, fewer layouts
    sub = [L for L in lay if (L.get('nbins') in ([[2], [1, 3], [2, 2]] + ([[3], [3, 2], [2, 1, 2]] if th else []))) or
           (L['ens'] == 'buckshot' and (L['dim'], L['npts']) in ((1, 2), (2, 3), (2, 5))) or
           (L['ens'] == 'sparsity' and (L['dim'], L['npts']) in ((2, 2), (1, 3)))]
    for L in sub:
        slow = L['ens'] == 'sparsity'
        for nst in nested:
            for mode in modes:
                for box in ('unit', 'shift', 'degen'):
                    for con in (None, 'clamp/pure'):
                        for pen in (None, 'ramp'):
                            for lim in [None] + (LIMITS_T if th else LIMITS_Q):
                                for term in (None, 'vtr', 'cog1'):
                                    if lim is None and term is None and not th and (requested(L) > 3 or mode != 'solve'):
                                        continue    # run to full convergence: small ensembles only (quick)
                                    if lim is None and not th and box == 'degen':
                                        continue    # limit-free runs on two boxes (quick)
                                    if slow and not th and (mode == 'stepsolve' or box != 'unit' or nst != 'NM'):
                                        continue    # fillpts runs diffev per point: one box / nested solver (quick)
                                    if th and ((nst == 'DE' and box != 'unit') or (slow and (box == 'shift' or nst == 'DE'))):
                                        continue    # DE members and the diffev-per-point generator: fewer boxes (thorough)
                                    mp = 'default' if (con is None) == (pen is None) else 'rev'
                                    out.append(dict(L, nested=nst, box=box, con=con, pen=pen, limits=lim, term=term,
                                                    evalmon=bool(pen), map=mp, mode=mode, cost='sphere', seed=seed + 1,
                                                    diff=bool(th or lim is not None)))
    # A3 the copying map and all evaluation orders with the full configuration switched on
    perms = []
    for L in [L for L in lay if requested(L) in (2, 3) or (th and requested(L) == 4)]:
        if L['ens'] == 'sparsity' and not th:
            continue
        n = requested(L)
        for p in itertools.permutations(range(n)):
            for cp in (False, True):
                for mode in modes:
                    if cp and mode != 'solve' and not th and n > 2:
                        continue
                    for nst in nested[:2]:
                        perms.append(dict(L, nested=nst, box='shift', con='clamp/pure', pen='ramp', limits=[4, None], term='cog1',
                                          evalmon=True, map=['perm', list(p), cp], mode=mode, cost='steps', seed=seed))
    out += perms
    # A5 range modes: bounds imposed together with the constraints (tight) and/or clipping (clip); every member is
    # compared with a stand-alone nested solver (differential oracle)
    lay5 = [{'ens': 'lattice', 'nbins': [2]}, {'ens': 'lattice', 'nbins': [1, 3]}, {'ens': 'lattice', 'nbins': [2, 2]},
            {'ens': 'buckshot', 'dim': 1, 'npts': 2}, {'ens': 'buckshot', 'dim': 2, 'npts': 3}] + \
           ([{'ens': 'lattice', 'nbins': [3, 2]}, {'ens': 'sparsity', 'dim': 2, 'npts': 2}] if th else [])
    for L in lay5:
        for nst in ('NM', 'Powell'):
            for mode in modes:
                for tight, clip in ((True, None), (None, True), (True, True)):
                    for box in ('shift',) + (('unit', 'degen') if th else ()):
                        for con in ('clamp/pure', None):
                            for lim in ([4, None], [None, 9]) + ((None,) if th else ()):
                                if clip is None and not th and (requested(L) > 3 or box != 'shift' or lim[0] is None or (con is None and mode != 'solve')):
                                    continue    # symbolic bounds are rebuilt (sympy) for every member: a thin slice (quick)
                                if clip is None and th and (box != 'shift' or lim is None or requested(L) > 4):
                                    continue    # symbolic bounds: one box, bounded runs (thorough)
                                mp = 'copy' if (mode == 'solve' and con and requested(L) <= 3) else ('rev' if con else 'default')
                                out.append(dict(L, nested=nst, box=box, tight=tight, clip=clip, con=con, pen=None, limits=lim,
                                                term='cog2' if lim is None else 'never', evalmon=False, map=mp, mode=mode, cost='sphere', seed=seed, diff=True))
    # A6 nested solvers that keep their best apart from population[0] (differential evolution, both flavours)
    lay6 = [{'ens': 'lattice', 'nbins': [2]}, {'ens': 'lattice', 'nbins': [2, 2]}, {'ens': 'buckshot', 'dim': 2, 'npts': 2}] + \
           ([{'ens': 'lattice', 'nbins': [1, 3]}, {'ens': 'buckshot', 'dim': 1, 'npts': 3}, {'ens': 'sparsity', 'dim': 2, 'npts': 2}] if th else [])
    for L in lay6:
        for nst in ('DE', 'DE2'):
            if nst == 'DE' and th:
                continue            # already in the thorough product above
            for mode in modes:
                for mp in ('default', 'none', 'copy'):
                    if mp == 'copy' and mode != 'solve' and requested(L) > 2 and not th:
                        continue
                    for con, pen in ((None, None), ('clamp/pure', 'ramp')):
                        for lim in ([3, None], [None, 30]):
                            for cost in ('sphere', 'steps'):
                                if cost == 'steps' and (mp != 'default' or con):
                                    continue
                                out.append(dict(L, nested=nst, box='unit', con=con, pen=pen, limits=lim, term='never', evalmon=bool(con),
                                                map=mp, mode=mode, cost=cost, seed=seed))
    # A7 monitors that already hold records when the ensemble starts (legacy data: the documented way to tell
    # SparsitySolver where earlier evaluations were made); the accounting must speak of THIS run's calls
    lay7 = [{'ens': 'lattice', 'nbins': [2]}, {'ens': 'lattice', 'nbins': [2, 2]}, {'ens': 'buckshot', 'dim': 2, 'npts': 3},
            {'ens': 'sparsity', 'dim': 2, 'npts': 2}] + ([{'ens': 'lattice', 'nbins': [1, 3]}, {'ens': 'sparsity', 'dim': 1, 'npts': 3}] if th else [])
    for L in lay7:
        for nst in ('NM', 'Powell') + (('DE',) if th else ()):
            for mode in modes:
                for eml, sml in ((1, None), (3, None), (None, 1), (None, 3), (3, 3), (1, 3)):
                    for lim in ([3, None], [None, 7]):
                        for term in ('never', 'vtr10'):
                            if L['ens'] == 'sparsity' and not th and (nst != 'NM' or lim[0] is None):
                                continue
                            if term == 'vtr10' and not th and (lim[0] is None or not sml):
                                continue    # a termination the legacy step records already satisfy: members may make no call at all
                            mps = ['default'] + (['copy'] if (mode == 'solve' or th) and requested(L) <= 3 else [])
                            for mp in mps:
                                out.append(dict(L, nested=nst, box='unit', con=None, pen=None, limits=lim, term=term, evalmon=True,
                                                em_preload=eml, sm_preload=sml, map=mp, mode=mode, cost='sphere', seed=seed))
    # A8 the same ensemble object solved twice in a row, the second time under raised limits
    for L in [{'ens': 'lattice', 'nbins': [2]}, {'ens': 'lattice', 'nbins': [2, 2]}, {'ens': 'buckshot', 'dim': 2, 'npts': 3}] + \
             ([{'ens': 'sparsity', 'dim': 2, 'npts': 2}] if th else []):
        for nst in ('NM', 'Powell'):
            for mode in modes:
                for em in (False, True):
                    for lim, lim2 in (([2, None], [5, None]), ([None, 6], [None, 14])):
                        for mp in ['default'] + (['copy'] if (mode == 'solve' or th) and requested(L) <= 3 else []):
                            out.append(dict(L, nested=nst, box='unit', con=None, pen=None, limits=lim, twice=lim2, term='never', evalmon=em,
                                            em_preload=3 if (em and lim[0] is None) else None, map=mp, mode=mode, cost='sphere', seed=seed))
    # A4 integer bin counts (randomly gridded) and no strict ranges
    for N in (1, 2, 3, 4, 6) + ((5, 8, 12) if th else ()):
        for dim in (1, 2, 3):
            for mode in ('solve', 'steploop'):
                for box in ('unit', None):
                    for s in ((seed, seed + 1, seed + 2) if th else (seed, seed + 1)):
                        out.append(dict(ens='lattice', nbins=N, dim=dim, nested='NM', box=box, con=None, pen=None, limits=[2, None], term='never',
                                        evalmon=False, map='fwd', mode=mode, cost='sphere', seed=s))
    for L in [L for L in lay if L['ens'] != 'lattice' and L['npts'] <= 3]:
        for s in (seed, seed + 1):
            if L['ens'] == 'sparsity' and not th and s != seed:
                continue
            out.append(dict(L, nested='NM', box=None, con=None, pen=None, limits=[2, None], term='never',
                            evalmon=False, map='fwd', mode='solve', cost='sphere', seed=s))
    return out


def requested(L):
    return lab.requested_members(L)


def wrapper_configs(ctx):
    th = ctx.thorough
    out = []
    for L in layouts(th):
        if L['ens'] == 'sparsity' and L['npts'] > 2 and not th:
            continue
        for nst in ['NM', 'Powell'] + (['DE'] if th else []):
            for mode in ('solve', 'stepsolve'):
                for box in ('unit', 'degen') + (('shift',) if th else ()):
                    for feat in ((None, None), ('clamp/pure', 'ramp')):
                        for lim in [None, [3, None], [None, 7], [0, None], [None, 0]]:
                            if L['ens'] == 'sparsity' and not th and (mode == 'stepsolve' or box == 'degen'):
                                continue
                            if lim is None and requested(L) > 4 and not th:
                                continue
                            if nst == 'DE' and (box != 'unit' or mode == 'stepsolve'):
                                continue
                            out.append(dict(L, api='wrapper', nested=nst, box=box, con=feat[0], pen=feat[1], limits=lim, term=None,
                                            evalmon=True, map='default', mode=mode, cost='sphere', seed=ctx.seed))
    # tightrange / cliprange through the wrappers (differential oracle on every member)
    for L in ({'ens': 'lattice', 'nbins': [2, 2]}, {'ens': 'lattice', 'nbins': [2]}, {'ens': 'buckshot', 'dim': 2, 'npts': 2}):
        for nst in ('NM', 'Powell'):
            for mode in ('solve', 'stepsolve'):
                for tight, clip in ((True, None), (None, True), (True, True)):
                    for lim in ([4, None], [None, 9]):
                        if clip is None and not th and (requested(L) > 2 or nst != 'NM' or lim[0] is None):
                            continue    # symbolic bounds (sympy) per member: two wrapper runs (quick)
                        out.append(dict(L, api='wrapper', nested=nst, box='shift', tight=tight, clip=clip, con='clamp/pure', pen=None, limits=lim,
                                        term=None, evalmon=True, map='default', mode=mode, cost='sphere', seed=ctx.seed, diff=True))
    # evalmon= / itermon= monitors that already hold records
    for L in ({'ens': 'lattice', 'nbins': [2, 2]}, {'ens': 'buckshot', 'dim': 2, 'npts': 3}, {'ens': 'sparsity', 'dim': 2, 'npts': 2}):
        for nst in ('NM', 'Powell'):
            for mode in ('solve', 'stepsolve'):
                for eml, sml in ((1, None), (3, None), (None, 3), (3, 3)):
                    if L['ens'] == 'sparsity' and not th and (nst != 'NM' or mode != 'solve'):
                        continue
                    out.append(dict(L, api='wrapper', nested=nst, box='unit', con=None, pen=None, limits=[3, None], term=None,
                                    evalmon=True, em_preload=eml, sm_preload=sml, map='default', mode=mode, cost='sphere', seed=ctx.seed))
    # differential-evolution members (best kept apart from population[0]) through the wrappers
    for L in ({'ens': 'lattice', 'nbins': [2, 2]}, {'ens': 'lattice', 'nbins': [3]}, {'ens': 'buckshot', 'dim': 2, 'npts': 3}):
        for nst in ('DE', 'DE2'):
            for mode in ('solve', 'stepsolve'):
                for feat in ((None, None), ('clamp/pure', 'ramp')):
                    for lim in ([3, None], [None, 30]):
                        out.append(dict(L, api='wrapper', nested=nst, box='unit', con=feat[0], pen=feat[1], limits=lim, term=None,
                                        evalmon=True, map='default', mode=mode, cost='sphere', seed=ctx.seed, family='de'))
    return out


def scripted_configs(ctx):
    th = ctx.thorough
    out = []
    shapes = [(1, 1), (1, 2), (2, 1), (1, 3), (3, 1), (2, 2)] + ([(2, 3), (3, 2)] if th else [])
    for dim, npts in shapes:
        for nst in ('NM', 'Powell'):
            for box in ('unit', 'shift', 'degen'):
                for mode in ('solve', 'steploop'):
                    if dim * npts >= 6 and (nst != 'NM' or mode != 'solve'):
                        continue
                    cfg = dict(ens='buckshot', dim=dim, npts=npts, nested=nst, box=box, con=None, pen='ramp' if box == 'shift' else None,
                               limits=[2, None], term='never', evalmon=False, map='fwd', mode=mode, cost='sphere', seed=ctx.seed, scripted=True)
                    out.append((cfg, None))
    return out


def fill_cases(ctx):
    th = ctx.thorough
    out = []
    for seed in ((ctx.seed, ctx.seed + 1, ctx.seed + 2) if th else (ctx.seed, ctx.seed + 1)):
        for dim in (1, 2) + ((3,) if th else ()):
            for lo, hi in GEN_BOXES[dim]:
                for npts in (1, 2) + ((3,) if th else ()):
                    for data in (None, 'mid'):
                        for rtol in (None, 0.5, -0.5):
                            d = None if data is None else [[(l + h) / 2.0 for l, h in zip(lo, hi)]]
                            out.append({'lo': lo, 'hi': hi, 'npts': npts, 'data': d, 'rtol': rtol, 'seed': seed})
    return out


def chunks(seq, n):
    return [seq[i:i + n] for i in range(0, len(seq), n)]


def weight(cfg):
    """rough relative cost, used only to balance shards"""
    n = requested(cfg)
    w = 1.0 + n
    if cfg.get('mode') != 'solve':
        w *= 2
    mp = cfg.get('map')
    if mp in ('copy', 'copyrev') or (isinstance(mp, list) and len(mp) > 2 and mp[2]):
        w *= 4 if cfg.get('mode') == 'solve' else 12
    if cfg['ens'] == 'sparsity':
        w += 25 * n
    if cfg.get('limits') is None:
        w *= 6 if cfg.get('term') else 20
    if cfg.get('diff'):
        w *= 1.5
    if cfg.get('tight') and cfg.get('clip') is None:
        w += 40 * n         # symbolic bounds constraint rebuilt for every member
    return w


def simplicity(cfg):
    plain = sum(1 for k in ('con', 'pen', 'term', 'evalmon') if cfg.get(k)) + (cfg.get('box') not in ('unit', None)) + (cfg.get('cost') != 'sphere')
    mp = cfg.get('map')
    return (requested(cfg), cfg['ens'] != 'lattice', ens_dim(cfg), cfg['nested'] != 'NM', cfg.get('mode') != 'solve', plain,
            0 if mp in ('none', 'default') else 1, str(mp), str(cfg.get('limits')))


def ens_dim(cfg):
    return lab.ens_dim(cfg)


def split_head(cfgs, k):
    """-> (rest, head): head holds the k simplest configurations of every (limits kind, path) group"""
    groups = {}
    for c in sorted(cfgs, key=simplicity):
        groups.setdefault((limits_kind(c), c.get('mode') != 'solve'), []).append(c)
    head = [c for g in sorted(groups) for c in groups[g][:k]]
    ids = set(id(c) for c in head)
    return [c for c in cfgs if id(c) not in ids], head


def balanced(cfgs, nshards):
    cfgs = sorted(cfgs, key=lambda c: -weight(c))
    bins = [[0.0, []] for _ in range(nshards)]
    for c in cfgs:
        b = min(bins, key=lambda b: b[0])
        b[0] += weight(c)
        b[1].append(c)
    return [b[1] for b in bins if b[1]]


def run(ctx):
    th = ctx.thorough
    A = configs(ctx)
    W = wrapper_configs(ctx)
    S = scripted_configs(ctx)
    F = fill_cases(ctx)
    parts = os.environ.get('VERIF_PARTS')
    items = []
    # the simplest configurations go first, in one shard, so that the case recorded for a signature is a small one
    nA, nW = len(A), len(W)
    A, headA = split_head(A, 10)
    W, headW = split_head(W, 6)
    items += [('R', headA)] + [('R', c) for c in balanced(A, 400 if not th else 1200)]
    items += [('W', headW)] + [('W', c) for c in balanced(W, 64 if not th else 192)]
    items += [('S', it) for it in S]
    items += [('Ggrid', None)]
    gshapes = [(d, n) for d in (1, 2, 3) for n in range(1, 7) if d * n <= 6]
    items += [('Gsamp', (d, n, w)) for d, n in gshapes for w in ('samplepts', 'random_samples')]
    items += [('Gdist', (d, n, 2 if not th else 3)) for d, n in ((1, 1), (1, 2), (2, 1), (2, 2))]
    items += [('Gfill', c) for c in chunks(F, 6)]
    items += [('Grb', (N, (1, 2, 3), 2 if not th else 3)) for N in range(0, 13)]
    if parts:      # development aid: run some parts only (never exhaustive)
        items = [it for it in items if it[0] in parts.split(',')]
        ctx.cap('VERIF_PARTS=%s: only these parts were run' % parts)
    # heavy shards first
    order = {'S': 0, 'R': 1, 'W': 2, 'Gfill': 3}
    items.sort(key=lambda it: order.get(it[0], 9))
    ctx.bounds = {
        'layouts': layouts(th), 'nested': ['NM', 'Powell', 'DE(NP=4) and DE2(NP=4): slice A6 in quick, full product in thorough (DE)'],
        'range_modes(tight,clip)': [[None, None], [True, None], [None, True], [True, True]],
        'legacy_monitor_records(eval,step)': [[1, 0], [3, 0], [0, 1], [0, 3], [3, 3], [1, 3]], 'second_solve_limits': [[[2, None], [5, None]], [[None, 6], [None, 14]]], 'boxes': ['unit[-1,2]', 'shift[0.25,3]', 'degen(x0=0.5)', 'none'],
        'constraint': [None, 'clamp x0<=0.75 (pure)'], 'penalty': [None, 'ramp 10*max(0,sum(x)-1)'],
        'limits(maxiter,maxfun)': [None] + (LIMITS_T if th else LIMITS_Q), 'termination': ['ensemble default', 'VTR(1/16)', 'ChangeOverGeneration(1/64,1)', 'never'],
        'maps': ['none (SetMapper not called)', 'default (traced python_map)', 'fwd', 'rev', 'copy (dill)', 'copyrev', 'every permutation x {share,copy} for 2-3%s members' % ('-4' if th else '')],
        'modes': ['Solve', 'Solve(step=True)', 'Step loop'], 'costs': ['sphere', 'steps'],
        'ensemble_runs': nA, 'wrapper_runs': 2 * nW, 'scripted_buckshot_configs': len(S), 'scripted_unit_alphabet': [0.0, 0.5, ONE_MINUS],
        'gridpts': 'all bin-size tuples in {1..4}^d, d<=3, 3 value schemes', 'samplepts/random_samples': 'dim*npts<=6, %d boxes, draws in {0,0.5,1-2^-53}' % sum(len(v) for v in GEN_BOXES.values()),
        'random_samples(dist)': 'scripted user distribution over {inside, below, lb, ub, above, inside2}, deviation bound %d' % (2 if not th else 3),
        'fillpts_cases': len(F), 'randomly_bin': 'N in 0..12, ndim in 1..3, ones x exact, random() in 5-value alphabet (every sort order of <=5 keys)',
        'seeds': [ctx.seed, ctx.seed + 1] + ([ctx.seed + 2] if th else []),
    }
    ctx.rule = ("one trace = one complete ensemble solve (or one generator call) on the real code; transitions = member iterations + map calls (+ choice answers); "
                "states = distinct (configuration, outcome) pairs; an ensemble run is non-trivial when it has >= 2 members whose best energies differ "
                "(the reported best is a real selection); generator cases are non-trivial when a draw deviates from the default / more than one point or layout exists")
    ctx.assumptions = [
        "the cost object's pickled form is a registry key, so the deep/dill copies the library makes all log into one list (what a real process pool cannot do)",
        "member iterations are observed by wrapping _Step of the nested solver classes for the duration of one execution",
        "nested solvers draw from a private seeded generator; only numpy rand behind samplepts is enumerated answer by answer (part C)",
        "limits are judged in the C05 sense: no member iteration begins when generations >= maxiter, real evaluations >= maxfun or the termination condition holds",
        "differential clause: an NM / Powell member must make exactly the cost calls of a stand-alone nested solver configured by hand with the ensemble's start, "
        "box and range mode (tight / clip=True), constraint, penalty, limits and termination (clip=False re-enters at random and is left to C02)",
        "monitors handed to the ensemble may already hold records (legacy data): counts are judged against the cost calls of THIS run; legacy *step* records make "
        "every nested solver believe it has already run (base-solver semantics), so for those runs only member count, selection, accounting, configuration and "
        "box obedience are judged, and an exception is judged only when a stand-alone nested solver handed the same records does not raise it too",
        "a second Solve on the same ensemble is made after raising the limits on the ensemble and on the members it already holds (SetEvaluationLimits on the ensemble alone does not reach them)",
        "MixedSolver, Collapse, SetDistribution on ensembles and a configured nested solver *instance* are outside this check",
    ]
    ctx.pmap(_dispatch, items)
    ctx.tally.samples = curated_samples(ctx)
    if ctx.tally.n.get('scripted_capped'):
        ctx.cap('%d scripted configurations stopped at 5000 executions' % ctx.tally.n['scripted_capped'])


def curated_samples(ctx):
    """a few literal executions, one per part, with what was observed"""
    out = []
    picks = [dict(ens='lattice', nbins=[2, 2], nested='Powell', box='shift', con='clamp/pure', pen='ramp', limits=[2, None], term='cog1',
                  evalmon=True, map='copy', mode='steploop', cost='steps', seed=ctx.seed),
             dict(ens='buckshot', dim=2, npts=3, nested='NM', box='unit', con=None, pen=None, limits=[None, 7], term='never',
                  evalmon=False, map='rev', mode='stepsolve', cost='sphere', seed=ctx.seed),
             dict(ens='sparsity', dim=1, npts=2, api='wrapper', nested='NM', box='unit', con=None, pen=None, limits=[3, None], term=None,
                  evalmon=True, map='default', mode='solve', cost='sphere', seed=ctx.seed)]
    for cfg in picks:
        R = lab.execute(cfg)
        rec = {'cfg': _short(cfg), 'violations': [d for s_, d in judge(R)]}
        if R.error is None and R.solver is not None:
            s = R.solver
            rec.update({'starts': [R.trace.starts.get(i) for i in range(len(s._allSolvers))],
                        'member_best_energies': [vec(e)[0] for e in s._all_bestEnergy], 'bestEnergy': vec(s.bestEnergy)[0],
                        'bestSolution': vec(s.bestSolution), '_all_evals': [int(v) for v in s._all_evals], '_total_evals': int(s._total_evals),
                        'real_cost_calls': len(R.trace.calls), 'map_calls': len(R.trace.map_sizes), 'member_iterations': len(R.trace.iters),
                        'wrapper_return': [vec(v) for v in R.ret[:6]] if R.ret is not None else None})
        else:
            rec['error'] = R.error and list(R.error[:2])
        out.append(rec)
    ch = tree.ReplayChooser([2, 0, 1, 2])
    cfg = dict(ens='buckshot', dim=2, npts=2, nested='NM', box='degen', con=None, pen=None, limits=[2, None], term='never', evalmon=False,
               map='fwd', mode='solve', cost='sphere', seed=ctx.seed, scripted=True)
    R = lab.execute(cfg, ch)
    out.append({'scripted_cfg': _short(cfg), 'rand_answers': [t[0] for t in ch.trace], 'starts': [R.trace.starts.get(i) for i in range(2)],
                'violations': [d for s_, d in judge(R)]})
    from mystic.math.grid import gridpts
    out.append({'gridpts': [[10, 11], [20, 21, 22]], 'returned': gridpts([[10, 11], [20, 21, 22]])})
    out.append({'fillpts': fill_cases(ctx)[3], 'returned': _fill_one(fill_cases(ctx)[3])})
    return out


# ------------------------------------------------------------------ replay
def replay(case):
    if 'gen' in case:
        return _replay_gen(case)
    ch = tree.ReplayChooser(case['choices']) if case.get('choices') else None
    R = lab.execute(case['cfg'], ch)
    out = [d for s, d in judge(R)]
    if case['cfg'].get('api') == 'wrapper' and case['cfg'].get('map') == 'none':
        T = shard_wrapper_pairs([dict(case['cfg'], map='default')])
        out = [v['detail'] for v in T.violations.values() if v['case']['cfg'].get('map') == 'none']
    return out


def _replay_gen(case):
    g = case['gen']
    if g == 'gridpts':
        from mystic.math.grid import gridpts
        got = [list(p) for p in gridpts([list(a) for a in case['q']])]
        want = [list(p) for p in itertools.product(*case['q'])]
        return [] if got == want else ['gridpts(%r) = %r, expected %r' % (case['q'], got, want)]
    if g == 'fillpts':
        T = shard_fillpts([{k: case[k] for k in ('lo', 'hi', 'npts', 'data', 'rtol', 'seed')}])
        return [v['detail'] for v in T.violations.values()]
    if g == 'randomly_bin':
        T = shard_randomly_bin((case['N'], (case['ndim'],), 3))
        return [v['detail'] for v in T.violations.values()]
    if g == 'dist':
        T = shard_samples_dist((case['dim'], case['npts'], 3))
        return [v['detail'] for v in T.violations.values()]
    T = shard_samples((len(case['lo']), case['npts'], g))
    return [v['detail'] for v in T.violations.values()]
