"""C20 - monitors and log files give back exactly what was recorded.

Engines E3 + E1, all on the real mystic.monitors / mystic.munge code:

 R  records      every record (x, y, id) of the value alphabet, every k, alone and
                 in every ordered pair of a reduced alphabet: len / x / y / id /
                 int index against ref.monitor.RefMonitor, caller's objects may be
                 mutated afterwards without changing the monitor.
 S  sequences    every operation sequence of length <= depth over
                 {record, slice, int index, len, a+b, extend(b), prepend(b),
                 extend/prepend(Null)} on two monitors, for every pair (kA, kB);
                 the reference is compared after every operation and the canonical
                 form of every monitor that is only *read* by an operation must
                 not change.
 L  log files    LoggingMonitor(interval 1|2, all True|False, k) over every
                 history of the record alphabet up to a length, then
                 munge.logfile_reader and munge.read_history.
 F  param files  munge.write_raw_file / write_support_file / write_converge_file
                 followed by read_raw_file, read_import, read_history,
                 read_support_file, read_converge_file; plus the history
                 "write, read, overwrite the same file, read".

Files live in one temporary directory per shard, removed when the shard ends.
"""
import os, sys, itertools, shutil, tempfile, importlib, math
import numpy as np
from mc.runner import Tally
from ref import monitor as rm
from ref.monitor import RefMonitor, canon, canon_ids, plain

INF, NAN = float('inf'), float('nan')
KS = [None, 1, 2, -1]

# ------------------------------------------------------------------ alphabets
XPAT = [[1.5, -2.0, 0.25], [-1e-12, 1e300, INF], [NAN, -INF, -0.0]]
XKINDS = ['list', 'tuple', 'ndarray', 'npscalars']
POPKINDS = ['poplist', 'poparray']          # two candidates per record (populations)
DIMS = [1, 2, 3]
YKINDS = ['float', 'npfloat', 'list', 'ndarray', 'inf', 'nan', 'tiny', 'big']
YEXTRA = ['ninf', 'vecspecial', 'tuple']
IDS = [None, 0, 7]


def mk_x(kind, dim, pat, pos=0):
    """a fresh parameter object; `pos` shifts the plain pattern so that records of
    one history differ"""
    v = list(XPAT[pat][:dim])
    if pat == 0:
        v = [e + 4.0 * pos for e in v]
    if kind == 'list':
        return v
    if kind == 'tuple':
        return tuple(v)
    if kind == 'ndarray':
        return np.array(v)
    if kind == 'npscalars':
        return [np.float64(e) for e in v]
    w = [e + 0.5 for e in v] if pat == 0 else list(reversed(v))
    if kind == 'poplist':
        return [v, w]
    if kind == 'poparray':
        return np.array([v, w])
    raise KeyError(kind)


def mk_y(kind, pos=0):
    s = 8.0 * pos
    return {'float': lambda: 0.75 + s, 'npfloat': lambda: np.float64(0.75 + s),
            'list': lambda: [0.5 + s, -1.5], 'ndarray': lambda: np.array([0.5 + s, -1.5]),
            'inf': lambda: INF, 'nan': lambda: NAN, 'tiny': lambda: -1e-12, 'big': lambda: 1e300,
            'ninf': lambda: -INF, 'vecspecial': lambda: [NAN, 1e300 if not pos else -1e-12],
            'tuple': lambda: (0.5 + s, -1.5)}[kind]()


def build(spec, pos=0):
    """spec = [xkind, dim, xpat, ykind, id] -> fresh (x, y, id)"""
    xk, dim, pat, yk, i = spec
    return mk_x(xk, dim, pat, pos), mk_y(yk, pos), i


def new_monitor(k, cls=None, *args, **kwds):
    from mystic.monitors import Monitor
    cls = cls or Monitor
    if k is not None:
        kwds['k'] = k
    return cls(*args, **kwds)


def kname(k):
    return 'None' if k is None else str(k)


# ------------------------------------------------------------------ comparing
def observe(m):
    """(len, x, y, id) of a real monitor in canonical form"""
    return (len(m), canon(m.x), canon(m.y), canon_ids(m.id))


def deep(m):
    """canonical form of the *whole* monitor (for 'argument unchanged')"""
    return (repr(m._x), repr(m._y), repr(m._id), repr(m._info), repr(m.k), m.label, repr(m._npts))


def compare(m, ref, what='monitor'):
    """list of (clause, text) - empty when the real monitor equals the reference"""
    out = []
    try:
        n = len(m)
        if n != len(ref):
            out.append(('len', 'len(%s) = %d, %d records expected' % (what, n, len(ref))))
        gx, gy, gi = m.x, m.y, m.id
        rk = ref.key()
        if canon(gx) != tuple([r[0] for r in rk]):
            out.append(('x', '%s.x = %r, recorded %r' % (what, gx, ref.x)))
        if canon(gy) != tuple([r[1] for r in rk]):
            out.append(('y', '%s.y = %r, recorded %r (k=%r, _y=%r)' % (what, gy, ref.y, m.k, m._y)))
        if list(gi) != [r[2] for r in rk]:
            out.append(('id', '%s.id = %r, recorded %r' % (what, gi, ref.id)))
    except Exception as e:
        out.append(('raised', 'reading %s raised %s: %s' % (what, type(e).__name__, e)))
    return out


def index_sweep(m, ref, what='monitor'):
    """m[i] for every i in [-n-1, n]; -> (messages, outcome label)"""
    out = []
    n = len(ref)
    ok = err = 0
    for i in range(-n - 1, n + 1):
        try:
            want = ref.index(i)
        except IndexError:
            want = IndexError
        try:
            got = m[i]
        except IndexError:
            got = IndexError
        except Exception as e:
            out.append(('index_raised', '%s[%d] raised %s: %s' % (what, i, type(e).__name__, e)))
            continue
        if want is IndexError or got is IndexError:
            err += 1
            if want is not got:
                out.append(('index', '%s[%d] -> %r, reference -> %r' % (what, i, got, want)))
            continue
        ok += 1
        if not (isinstance(got, tuple) and len(got) == 2 and canon(got[0]) == canon(want[0])
                and canon(got[1]) == canon(want[1])):
            out.append(('index', '%s[%d] = %r, recorded (x, y) = %r' % (what, i, got, want)))
    return out, 'index:%s' % ('empty' if not ok else 'ok')


# ================================================================= R: records
def _mutate_caller(x, y):
    """scribble over the objects the caller passed in (where they are mutable)"""
    done = False
    for o in (x, y):
        if isinstance(o, np.ndarray) and o.ndim:
            o[...] = 99.0
            done = True
        elif isinstance(o, list) and len(o):
            if isinstance(o[0], list):
                o[0][0] = 99.0
            o[0] = 99.0
            o.append(98.0)
            done = True
    return done


def run_records(specs, k, T=None, alias=True):
    """record the history on a fresh monitor; -> list of (clause, text)"""
    m = new_monitor(k)
    ref = RefMonitor()
    msgs = []
    held = []
    for pos, spec in enumerate(specs):
        x, y, i = build(spec, pos)
        rx, ry, _ = build(spec, pos)
        try:
            ret = m(x, y, i) if i is not None else m(x, y)
        except Exception as e:
            return [('record_raised', 'Monitor(k=%r)(%r, %r, %r) raised %s: %s' % (k, x, y, i, type(e).__name__, e))]
        if ret is not None:
            msgs.append(('record', 'recording returned %r' % (ret,)))
        held.append((x, y))
        ref.record(rx, ry, i)
        msgs += compare(m, ref)
        if T is not None:
            T.count('transitions')
    msgs += index_sweep(m, ref)[0]
    if alias:
        touched = False
        for x, y in held:
            touched = _mutate_caller(x, y) or touched
        if touched:
            msgs += [('alias_' + c, 'after the caller mutated the objects it had passed in: ' + t)
                     for c, t in compare(m, ref)]
            if T is not None:
                T.count('alias_checks')
    if T is not None:
        T.state(('R', ref.key()))
    return msgs


def shard_records(item):
    histories, ks = item[1], item[2]
    T = Tally()
    for specs in histories:
        for k in ks:
            T.count('traces')
            msgs = run_records(specs, k, T)
            T.nontriv(('R', specs, k))
            T.hist('R_len', len(specs))
            for clause, text in msgs:
                T.violate({'part': 'record', 'clause': clause, 'k': kname(k),
                           'cost': 'scalar' if all(s[3] not in ('list', 'ndarray', 'tuple', 'vecspecial') for s in specs)
                           else 'vector'},
                          {'part': 'R', 'specs': specs, 'k': k},
                          '%s [k=%r records=%r]' % (text, k, specs))
    if item[-1] is True:
        T.sample({'part': 'R', 'specs': histories[-1], 'k': ks[-1]})
    return T




# =============================================================== S: sequences
SEQ_RECORDS = [
    ['list', 2, 0, 'float', None],
    ['ndarray', 3, 1, 'ndarray', 7],
    ['tuple', 1, 2, 'inf', 0],
]
OTHER = {'A': 'B', 'B': 'A'}


def seq_alphabet(name):
    """both alphabets are symmetric under A<->B, so the 10 unordered pairs {kA,kB}
    cover all 16 ordered pairs.  op encodings:
      (rec,t,r) (slice,t,a,b,dest) (index,t) (len,t) (look,t)=len+index (add,t,u): t=t+u
      (extend,t,u) (prepend,t,u) (extnull,t,variant) (prenull,t,variant)"""
    wide = (name == 'wide')
    ops = []
    for t in 'AB':
        for r in range(3 if wide else 2):
            ops.append(('rec', t, r))
    for t in 'AB':
        if wide:
            for a, b in ((1, None), (None, -1)):
                ops.append(('slice', t, a, b, t))           # t = t[a:b]
                ops.append(('slice', t, a, b, OTHER[t]))    # other = t[a:b]; t stays alive
            ops.append(('slice', t, 0, 1, t))
            ops.append(('slice', t, 1, 3, OTHER[t]))
            ops.append(('slice', t, None, None, t, -1))          # t = t[::-1]  (same length, other order)
            ops.append(('slice', t, None, None, OTHER[t], 2))    # other = t[::2]
        else:
            ops.append(('slice', t, 1, None, t))
            ops.append(('slice', t, None, -1, OTHER[t]))
    for t in 'AB':
        if wide:
            ops.append(('index', t))
            ops.append(('len', t))
        else:
            ops.append(('look', t))                         # len(t) and t[i] for every i
    if wide:
        for t in 'AB':
            ops.append(('mread', t))    # the munge readers applied to the live monitor (they only read it)
    for t in 'AB':
        for u in 'AB':
            ops.append(('add', t, u))
    for t in 'AB':
        ops.append(('extend', t, OTHER[t]))
        ops.append(('prepend', t, OTHER[t]))
    for t in 'AB':
        ops.append(('extnull', t, 'instance'))
        if wide:
            ops.append(('prenull', t, 'class'))
            ops.append(('extnull', t, 'class'))
            ops.append(('prenull', t, 'instance'))
    return ops


def _null(variant):
    from mystic.monitors import Null
    return Null() if variant == 'instance' else Null


_REC_CACHE = {}


def _seq_record(r, pos):
    """(x, y, id, plain x, plain y); the objects are shared between executions - part R
    shows that a monitor keeps no reference to what it is given"""
    key = (r, pos)
    if key not in _REC_CACHE:
        x, y, i = build(SEQ_RECORDS[r], pos)
        px, py = plain(x), plain(y)
        _REC_CACHE[key] = (x, y, i, px, py, (canon(px), canon(py), i))
    return _REC_CACHE[key]


class _Abort(Exception):
    pass


class SeqState(object):
    def __init__(self, ka, kb):
        self.real = {'A': new_monitor(ka), 'B': new_monitor(kb)}
        self.ref = {'A': RefMonitor(), 'B': RefMonitor()}
        self.nrec = 0

    def key(self):
        return (self.ref['A'].key(), self.ref['B'].key())

    def apply(self, op, judge):
        """execute one op on the real monitors and on the reference.
        -> (messages, outcome label, nontrivial?, dead?)"""
        real, ref = self.real, self.ref
        kind, t = op[0], op[1]
        o = OTHER[t]
        msgs = []
        label = kind
        nontrivial = False
        readonly = {}       # slot -> whole-object canonical form before; must be equal after
        changed = ''        # slots compared with the reference afterwards; every other slot is
                            # either in `readonly` (shown unchanged) or a result compared on the spot
        try:
            if kind == 'rec':
                x, y, i, px, py, ck = _seq_record(op[2], self.nrec)
                self.nrec += 1
                if judge:
                    readonly[o] = deep(real[o])
                real[t](x, y, i)
                ref[t].record_plain(px, py, i, ck)
                nontrivial = True
                changed = t
            elif kind == 'slice':
                a, b, dest = op[2], op[3], op[4]
                c = op[5] if len(op) > 5 else None
                src = real[t]
                if judge:
                    readonly = {s: deep(real[s]) for s in 'AB'}
                res = src[a:b:c]
                want = ref[t].slice(a, b, c)
                if judge:
                    msgs += compare(res, want, '%s[%r:%r:%r]' % (t, a, b, c))
                    if res is src:
                        msgs.append(('slice_identity', '%s[%r:%r:%r] returned the monitor itself' % (t, a, b, c)))
                    if res.k != src.k:
                        msgs.append(('slice_k', '%s[%r:%r:%r].k = %r, source k = %r' % (t, a, b, c, res.k, src.k)))
                    msgs += self._unchanged(readonly, '%s[%r:%r:%r]' % (t, a, b, c))
                    readonly = {}
                real[dest], ref[dest] = res, want
                label = 'slice:%s' % ('nonempty' if len(want) else 'empty')
                nontrivial = len(want) > 0
            elif kind in ('index', 'look'):
                if judge:
                    readonly = {s: deep(real[s]) for s in 'AB'}
                    more, label = index_sweep(real[t], ref[t], t)
                    msgs += more
                    if kind == 'look' and len(real[t]) != len(ref[t]):
                        msgs.append(('len', 'len(%s) = %r, %d records expected' % (t, len(real[t]), len(ref[t]))))
                nontrivial = len(ref[t]) > 0
            elif kind == 'mread':
                import mystic.munge as mg
                readonly = {s: deep(real[s]) for s in 'AB'} if judge else {}
                n = len(ref[t])
                want_x = [list(r[0]) if hasattr(r[0], '__len__') else r[0] for r in ref[t].key()]
                for rname, reader in (('read_monitor', lambda m: mg.read_monitor(m, id=True)),
                                      ('read_trajectories', lambda m: mg.read_trajectories(m, iter=True)),
                                      ('read_history', lambda m: mg.read_history(m, iter=True) if len(m) else None)):
                    try:
                        out = reader(real[t])
                    except Exception as e:
                        if judge:
                            msgs.append(('munge_reader_raised', '%s(%s) raised %s: %s' % (rname, t, type(e).__name__, e)))
                        continue
                    if judge and out is not None and rname != 'read_history':
                        xs = out[0] if rname == 'read_monitor' else out[1]
                        if len(xs) != n:
                            msgs.append(('munge_reader_len', '%s(%s) returned %d parameter records for %d recorded' % (rname, t, len(xs), n)))
                label = 'mread:%s' % ('empty' if not n else 'nonempty')
                nontrivial = n > 0
            elif kind == 'len':
                if judge:
                    readonly = {s: deep(real[s]) for s in 'AB'}
                    n = len(real[t])
                    if n != len(ref[t]):
                        msgs.append(('len', 'len(%s) = %r, %d records expected' % (t, n, len(ref[t]))))
                label = 'len:%d' % len(ref[t])
                nontrivial = len(ref[t]) > 0
            elif kind == 'add':
                u = op[2]
                left, right = real[t], real[u]
                if judge:
                    readonly = {s: deep(real[s]) for s in 'AB'}
                res = left + right
                want = ref[t].concat(ref[u])
                if judge:
                    msgs += compare(res, want, '%s+%s' % (t, u))
                    if res is left or res is right:
                        msgs.append(('add_identity', '%s+%s returned one of its operands' % (t, u)))
                    if res.k != left.k:
                        msgs.append(('add_k', '(%s+%s).k = %r, left operand k = %r' % (t, u, res.k, left.k)))
                    msgs += self._unchanged(readonly, '%s+%s' % (t, u))
                    readonly = {}
                real[t], ref[t] = res, want
                label = 'add:%s' % ('self' if t == u else ('empty-arg' if not len(ref[u]) else 'nonempty-arg'))
                nontrivial = len(want) > 0
            elif kind in ('extend', 'prepend'):
                u = op[2]
                if judge:
                    readonly[u] = deep(real[u])
                ret = getattr(real[t], kind)(real[u])
                getattr(ref[t], kind)(ref[u])
                changed = t
                if ret is not None and judge:
                    msgs.append((kind, '%s.%s(%s) returned %r' % (t, kind, u, ret)))
                label = '%s:%s' % (kind, 'empty-arg' if not len(ref[u]) else
                                   ('onto-empty' if len(ref[t]) == len(ref[u]) else 'both-nonempty'))
                nontrivial = len(ref[u]) > 0
            elif kind in ('extnull', 'prenull'):
                if judge:
                    readonly = {s: deep(real[s]) for s in 'AB'}
                getattr(real[t], 'extend' if kind == 'extnull' else 'prepend')(_null(op[2]))
                label = '%s:%s' % (kind, op[2])
                nontrivial = len(ref[t]) > 0
            else:
                raise KeyError(kind)
        except Exception as e:
            if not judge:
                raise _Abort()
            msgs.append(('raised', '%s raised %s: %s' % (list(op), type(e).__name__, e)))
            return msgs, label + ':RAISED', False, True
        if judge:
            msgs += self._unchanged(readonly, list(op))
            for s in changed:
                msgs += [(c, 'after %s: %s' % (list(op), txt)) for c, txt in compare(real[s], ref[s], s)]
        else:
            # an unjudged prefix is still *observed* the way a judged one is: reading a monitor is part of the
            # history (a read that leaves something behind in the object must be met by the ops that follow)
            for s in 'AB':
                try:
                    len(real[s]); real[s].x; real[s].y; real[s].id
                except Exception:
                    pass
        return msgs, label, nontrivial, False

    def _unchanged(self, readonly, what):
        out = []
        for slot, before in readonly.items():
            after = deep(self.real[slot])
            if after != before:
                out.append(('argument_changed', '%s changed monitor %s, which it only reads: %s -> %s'
                            % (what, slot, before, after)))
        return out


def run_sequence(ka, kb, ops, judge_from=0, T=None):
    """replay ops on fresh monitors; judge every op with index >= judge_from.
    -> list of (step, op, clause, text)"""
    st = SeqState(ka, kb)
    found = []
    for n, op in enumerate(ops):
        judge = n >= judge_from
        before = st.key() if (judge and T is not None) else None
        try:
            msgs, label, nontrivial, dead = st.apply(op, judge)
        except _Abort:
            return found            # an unjudged prefix raised: reported where that prefix was judged
        if judge:
            if T is not None:
                T.count('histories_judged')
                T.hist('S_outcome', label)
                T.state(('S', ka, kb, st.key()))
                if nontrivial:
                    T.nontriv(('S', ka, kb, before, op))
            for clause, text in msgs:
                found.append((n, op, clause, text))
        if dead:
            break
    return found


def shard_sequences(item):
    ka, kb, aname, depth, prefix = item[1:6]
    alphabet = seq_alphabet(aname)
    T = Tally()
    found = []
    free = depth - len(prefix)
    for tail in itertools.product(range(len(alphabet)), repeat=free):
        path = tuple(prefix) + tail
        # every prefix is judged exactly once: by the lexicographically first path
        # below it, i.e. op n is judged iff all later ops of this path have index 0
        jf = max([i for i, p in enumerate(path) if p] or [0])
        ops = [alphabet[i] for i in path]
        T.count('traces')
        T.count('transitions', depth)
        res = run_sequence(ka, kb, ops, jf, T)
        for n, op, clause, text in res:
            found.append((n, op, clause, text, ops))
        if any('MemoryError' in f[3] for f in res):
            T.count('shards_aborted_after_MemoryError')     # reported as a violation; the rest of this shard is skipped
            break
    found.sort(key=lambda f: f[0])          # shortest failing history first: it becomes the replay of its signature
    for n, op, clause, text, ops in found:
        T.violate({'part': 'sequence', 'clause': clause, 'op': op[0], 'kA': kname(ka), 'kB': kname(kb)},
                  {'part': 'S', 'kA': ka, 'kB': kb, 'ops': [list(o) for o in ops[:n + 1]]},
                  '%s [kA=%r kB=%r ops=%s]' % (text, ka, kb, [list(o) for o in ops[:n + 1]]))
    if item[-1] is True:
        T.sample({'part': 'S', 'kA': ka, 'kB': kb, 'alphabet': aname,
                  'ops': [list(alphabet[i]) for i in (0, 14, 18, 6)[:depth]]})
    return T


# ================================================================ L: log files
def _logged(px, py, all_):
    """what one call of a LoggingMonitor is documented / built to write: everything it
    was given (all=True) or the first ('best') member of a population (all=False);
    params always as a list"""
    if all_:
        lx = px if isinstance(px, list) else [px]
        return lx, py
    xb = px[0] if isinstance(px, list) else px
    lx = xb if isinstance(xb, list) else [xb]
    ly = py[0] if isinstance(py, list) else py
    return lx, ly


def run_log(specs, k, interval, all_, tmpdir, name):
    """-> (list of (clause, text), digest of what was read back)"""
    from mystic.monitors import LoggingMonitor
    from mystic import munge
    fn = os.path.join(tmpdir, name)
    msgs = []
    try:
        m = new_monitor(k, LoggingMonitor, interval, fn, True, all_)
        ref = RefMonitor()
        expect = []
        for pos, spec in enumerate(specs):
            x, y, i = build(spec, pos)
            rx, ry, _ = build(spec, pos)
            try:
                m(x, y, i) if i is not None else m(x, y)
            except Exception as e:
                return [('log_record_raised', 'LoggingMonitor(interval=%r, all=%r, k=%r)(%r, %r, %r) raised %s: %s'
                         % (interval, all_, k, rx, ry, i, type(e).__name__, e))], None
            ref.record(rx, ry, i)
            if pos % interval == 0:
                lx, ly = _logged(plain(rx), plain(ry), all_)
                expect.append(((pos,) if i is None else (pos, i), lx, ly))
        msgs += compare(m, ref, 'LoggingMonitor')
        esteps = [e[0] for e in expect]
        eparams = [e[1] for e in expect]
        ecost = [e[2] for e in expect]
        esupport = rm.permute(rm.cube(eparams), 'itj')
        seen = []

        def judge(reader, steps, params, cost, want_params):
            if steps is not None:
                got = [tuple(s) for s in steps] if steps is not None else None
                if got != esteps:
                    msgs.append(('log_iterations', '%s returned iterations %r, written calls were %r' % (reader, steps, esteps)))
            if canon(params) != canon(want_params):
                msgs.append(('log_params', '%s returned params %r, expected %r' % (reader, params, want_params)))
            if canon(cost) != canon(ecost):
                msgs.append(('log_cost', '%s returned cost %r, recorded %r' % (reader, cost, ecost)))
            seen.append((canon(params), canon(cost)))

        calls = [('logfile_reader(iter=True)', lambda: munge.logfile_reader(fn, iter=True), True, eparams),
                 ('logfile_reader', lambda: munge.logfile_reader(fn), False, eparams),
                 ('read_history(iter=True)', lambda: munge.read_history(fn, iter=True), True, esupport),
                 ('read_history', lambda: munge.read_history(fn), False, esupport)]
        for reader, call, has_iter, want in calls:
            try:
                out = call()
                if has_iter:
                    steps, params, cost = out
                else:
                    steps = None
                    params, cost = out
            except Exception as e:
                msgs.append(('log_read_raised', '%s raised %s: %s; file:\n%s'
                             % (reader, type(e).__name__, e, open(fn).read()[-400:])))
                continue
            judge(reader, steps, params, cost, want)
        return msgs, (tuple(esteps), tuple(seen))
    finally:
        if os.path.exists(fn):
            os.unlink(fn)


def shard_logs(item):
    histories, configs = item[1], item[2]
    T = Tally()
    tmp = tempfile.mkdtemp(prefix='c20L_')
    try:
        n = 0
        for specs in histories:
            for k, interval, all_ in configs:
                n += 1
                T.count('traces')
                T.count('transitions', len(specs) + 4)
                msgs, dig = run_log(specs, k, interval, all_, tmp, 'L%d.txt' % n)
                T.state(('L', dig))
                T.hist('L_len', len(specs))
                if len(specs):
                    T.nontriv(('L', specs, k, interval, all_))
                for clause, text in msgs:
                    T.violate({'part': 'logfile', 'clause': clause, 'all': all_, 'interval': interval,
                               'k': kname(k) if clause in ('y', 'log_cost') else '*'},
                              {'part': 'L', 'specs': specs, 'k': k, 'interval': interval, 'all': all_},
                              '%s [interval=%r all=%r k=%r records=%r]' % (text, interval, all_, k, specs))
    finally:
        shutil.rmtree(tmp, ignore_errors=True)
    if item[-1] is True:
        T.sample({'part': 'L', 'specs': histories[-1], 'config(k,interval,all)': configs[-1]})
    return T


# ============================================================== F: param files
WRITERS = ['raw', 'support', 'converge']
LAYOUT = {'raw': None, 'support': 'itj', 'converge': 'tij'}   # None = exactly monitor.x
ORDERS = ['tji', 'tij', 'jti', 'jit', 'itj', 'ijt']
_SERIAL = [0]


def _modname(tag):
    _SERIAL[0] += 1
    return 'c20f%d_%d_%s' % (os.getpid(), _SERIAL[0], tag)


def _forget(mod):
    sys.modules.pop(mod, None)


def _classify(e):
    if isinstance(e, NameError) and "'np'" in str(e):
        return 'unreadable_numpy_scalar_repr'
    return 'read_raised_%s' % type(e).__name__


def _expected_params(ref, writer):
    if LAYOUT[writer] is None:
        return ref.x
    return rm.permute(rm.cube(ref.x), LAYOUT[writer])


def _ids_ok(got, want):
    if not want:
        return got is None or list(got) == []
    try:
        return [tuple(g) for g in got] == want
    except TypeError:
        return False


def run_files(specs, k, tmpdir, writers=WRITERS, T=None):
    """-> list of (writer, reader or 'all', clause, text)"""
    from mystic import munge
    m = new_monitor(k)
    ref = RefMonitor()
    for pos, spec in enumerate(specs):
        x, y, i = build(spec, pos)
        rx, ry, _ = build(spec, pos)
        m(x, y, i) if i is not None else m(x, y)
        ref.record(rx, ry, i)
    found = []
    before = deep(m)
    eids = rm.iterations_per_id(ref.id)
    ecost = ref.y
    c = rm.cube(ref.x)
    # the monitor itself is a source for read_history (no file involved)
    if T is not None or 'monitor' in writers:
        try:
            ids, params, cost = munge.read_history(m, iter=True)
            if not _ids_ok(ids, eids):
                found.append(('monitor', 'read_history', 'file_iterations',
                              'read_history(monitor, iter=True) returned iterations %r, expected %r (ids recorded %r)' % (ids, eids, ref.id)))
            if canon(params) != canon(rm.permute(c, 'itj')):
                found.append(('monitor', 'read_history', 'file_params',
                              'read_history(monitor) returned params %r, expected the support layout %r of %r' % (params, rm.permute(c, 'itj'), ref.x)))
            if canon(cost) != canon(ecost):
                found.append(('monitor', 'read_history', 'file_cost', 'read_history(monitor) returned cost %r, recorded %r (k=%r)' % (cost, ecost, k)))
        except Exception as e:
            found.append(('monitor', 'read_history', 'read_raised_%s' % type(e).__name__,
                          'read_history(monitor, iter=True) raised %s: %s (monitor.y = %r)' % (type(e).__name__, e, m.y)))
        if deep(m) != before:
            found.append(('monitor', 'read_history', 'reader_changed_monitor', 'read_history(monitor) changed the monitor'))
    for w in writers:
        if w == 'monitor':
            continue
        mod = _modname(w)
        fn = os.path.join(tmpdir, mod + '.py')
        try:
            try:
                getattr(munge, 'write_%s_file' % w)(m, fn)
            except Exception as e:
                found.append((w, 'write', 'write_raised', 'write_%s_file raised %s: %s' % (w, type(e).__name__, e)))
                continue
            if deep(m) != before:
                found.append((w, 'write', 'writer_changed_monitor', 'write_%s_file changed the monitor: %s -> %s' % (w, before, deep(m))))
            stored = _expected_params(ref, w)
            # (reader name, call, shape of the answer, expected params or None for "any pure transpose", fresh import?)
            calls = [('read_raw_file(iter=True)', lambda: munge.read_raw_file(fn, iter=True), 'ipc', stored, True),
                     ('read_raw_file', lambda: munge.read_raw_file(fn), 'pc', stored, False),
                     ("read_import('params','cost')", lambda: munge.read_import(fn, 'params', 'cost'), 'pc', stored, False)]
            if w == 'raw':
                calls += [('read_support_file(iter=True)', lambda: munge.read_support_file(fn, iter=True), 'i(pc)', rm.permute(c, 'itj'), False),
                          ('read_converge_file(iter=True)', lambda: munge.read_converge_file(fn, iter=True), 'i(pc)', rm.permute(c, 'tij'), False)]
            elif w == 'support':
                calls += [('read_support_file(iter=True)', lambda: munge.read_support_file(fn, iter=True), 'i(pc)', None, False)]
            else:
                calls += [('read_converge_file(iter=True)', lambda: munge.read_converge_file(fn, iter=True), 'i(pc)', None, False)]
            calls += [('read_history(iter=True)', lambda: munge.read_history(fn, iter=True), 'ipc', stored, True),
                      ('read_history', lambda: munge.read_history(fn), 'pc', stored, False)]
            per_clause = {}
            for reader, call, shape, want, fresh in calls:
                if fresh:
                    _forget(mod)
                    importlib.invalidate_caches()
                if T is not None:
                    T.count('transitions')
                try:
                    out = call()
                    if shape == 'ipc':
                        ids, params, cost = out
                    elif shape == 'pc':
                        ids = False
                        params, cost = out
                    else:
                        ids, (params, cost) = out
                except Exception as e:
                    per_clause.setdefault(_classify(e), []).append(
                        (reader, '%s on the %s file raised %s: %s; file:\n%s'
                         % (reader, w, type(e).__name__, e, open(fn).read()[-300:])))
                    continue
                if ids is not False and not _ids_ok(ids, eids):
                    per_clause.setdefault('file_iterations', []).append(
                        (reader, '%s on the %s file returned iterations %r, expected %r (ids recorded %r)' % (reader, w, ids, eids, ref.id)))
                if want is not None:
                    if canon(params) != canon(want):
                        per_clause.setdefault('file_params', []).append(
                            (reader, '%s on the %s file returned params %r, expected %r (monitor.x = %r)' % (reader, w, params, want, ref.x)))
                else:
                    match = [o for o in ORDERS if canon(params) == canon(rm.permute(c, o))]
                    if T is not None:
                        T.hist('F_own_format_reader_layout', '%s:%s' % (reader, match[0] if len(match) == 1 else
                                                                          ('ambiguous' if match else 'NONE')))
                    if not match:
                        per_clause.setdefault('file_params_not_a_transpose', []).append(
                            (reader, '%s on the %s file returned params %r, which is no axis permutation of the recorded %r' % (reader, w, params, c)))
                if canon(cost) != canon(ecost):
                    per_clause.setdefault('file_cost', []).append(
                        (reader, '%s on the %s file returned cost %r, recorded %r (k=%r)' % (reader, w, cost, ecost, k)))
            for clause, hits in per_clause.items():
                if len(hits) == len(calls):
                    found.append((w, 'all', clause, hits[0][1]))
                else:
                    for reader, text in hits:
                        found.append((w, reader.split('(')[0], clause, text))
        finally:
            _forget(mod)
            if os.path.exists(fn):
                os.unlink(fn)
    return found


def run_rewrite(specs1, specs2, k, writer, reader, tmpdir):
    """write m1, read, overwrite the same file with m2, read again -> (clause, text) list"""
    from mystic import munge
    mons = []
    for specs in (specs1, specs2):
        m, ref = new_monitor(k), RefMonitor()
        for pos, spec in enumerate(specs):
            x, y, i = build(spec, pos)
            m(x, y, i) if i is not None else m(x, y)
            ref.record(*build(spec, pos))
        mons.append((m, ref))
    mod = _modname('rw')
    fn = os.path.join(tmpdir, mod + '.py')
    read = {'read_raw_file': lambda: munge.read_raw_file(fn),
            'read_import': lambda: munge.read_import(fn, 'params', 'cost'),
            'read_history': lambda: munge.read_history(fn)}[reader]
    out = []
    try:
        got = []
        for m, ref in mons:
            getattr(munge, 'write_%s_file' % writer)(m, fn)
            importlib.invalidate_caches()
            try:
                params, cost = read()
            except Exception as e:
                return [('rewrite_' + _classify(e), '%s raised %s: %s' % (reader, type(e).__name__, e))]
            got.append((canon(params), canon(cost)))
            shown = (params, cost)
        want = [(canon(_expected_params(ref, writer)), canon(ref.y)) for m, ref in mons]
        if got[0] != want[0]:
            return []                       # the plain round trip is judged (and reported) by run_files
        if got[1] != want[1]:
            if got[1] == want[0] and want[0] != want[1]:
                out.append(('stale_reread', '%s after write_%s_file overwrote %s returned the *previous* contents %r; the file now holds %r'
                            % (reader, writer, os.path.basename(fn), shown, open(fn).read()[-200:])))
            else:
                out.append(('reread', '%s after overwriting returned %r, expected params %r cost %r'
                            % (reader, shown, _expected_params(mons[1][1], writer), mons[1][1].y)))
        return out
    finally:
        _forget(mod)
        if os.path.exists(fn):
            os.unlink(fn)


def shard_files(item):
    histories, ks = item[1], item[2]
    T = Tally()
    tmp = tempfile.mkdtemp(prefix='c20F_')
    try:
        for specs in histories:
            for k in ks:
                T.count('traces')
                T.count('transitions', len(specs) + len(WRITERS))
                found = run_files(specs, k, tmp, WRITERS, T)
                T.state(('F', specs, k, tuple(sorted(set((w, c) for w, r, c, t in found)))))
                T.hist('F_len', len(specs))
                if len(specs):
                    T.nontriv(('F', specs, k))
                for w, reader, clause, text in found:
                    sig = {'part': 'file', 'writer': w, 'reader': reader, 'clause': clause}
                    if clause == 'file_cost':
                        sig['k'] = kname(k)
                    T.violate(sig, {'part': 'F', 'specs': specs, 'k': k, 'writer': w},
                              '%s [k=%r records=%r]' % (text, k, specs))
    finally:
        shutil.rmtree(tmp, ignore_errors=True)
    if item[-1] is True:
        T.sample({'part': 'F', 'specs': histories[-1], 'k': ks[-1]})
    return T


REWRITE_RECORDS = [['list', 2, 0, 'float', None], ['tuple', 2, 1, 'list', 7], ['list', 2, 0, 'nan', None]]


def shard_rewrite(item):
    T = Tally()
    tmp = tempfile.mkdtemp(prefix='c20W_')
    try:
        hs = [[r] for r in REWRITE_RECORDS] + [[REWRITE_RECORDS[0], REWRITE_RECORDS[1]]]
        for s1 in hs:
            for s2 in hs:
                for k in (None, 2):
                    for w in WRITERS:
                        for reader in ('read_raw_file', 'read_import', 'read_history'):
                            T.count('traces')
                            T.count('transitions', 4)
                            if s1 != s2:
                                T.nontriv(('W', s1, s2, k, w, reader))
                            msgs = run_rewrite(s1, s2, k, w, reader, tmp)
                            T.hist('W_outcome', msgs[0][0] if msgs else 'ok')
                            for clause, text in msgs:
                                T.violate({'part': 'file_rewrite', 'clause': clause},
                                          {'part': 'W', 'specs1': s1, 'specs2': s2, 'k': k, 'writer': w, 'reader': reader},
                                          '%s [writer=%s k=%r first=%r second=%r]' % (text, w, k, s1, s2))
        T.count('states', 1)
    finally:
        shutil.rmtree(tmp, ignore_errors=True)
    return T


# ===================================================================== driver
LONG = [['list', 2, 0, 'float', None], ['ndarray', 2, 1, 'ndarray', 7], ['tuple', 2, 2, 'inf', 0],
        ['npscalars', 2, 0, 'nan', None], ['list', 2, 1, 'tiny', 7], ['ndarray', 2, 0, 'big', None]]


def _singles(xkinds, dims, ykinds, ids, pats=(0, 1, 2)):
    return [[[xk, d, p, yk, i]] for xk in xkinds for d in dims for p in pats for yk in ykinds for i in ids]


def _pairs(xkinds, ykinds, ids, dims=(2, 2)):
    one = [(xk, yk, i) for xk in xkinds for yk in ykinds for i in ids]
    return [[[a[0], dims[0], 0, a[1], a[2]], [b[0], dims[1], 1, b[1], b[2]]] for a in one for b in one]


def _words(alphabet, lengths):
    out = []
    for n in lengths:
        out += [list(w) for w in itertools.product(alphabet, repeat=n)]
    return out


def _chunks(seq, n):
    return [seq[i:i + n] for i in range(0, len(seq), n)]


def plan(thorough):
    yall = YKINDS + YEXTRA
    allx = XKINDS + POPKINDS
    kpairs = [(a, b) for i, a in enumerate(KS) for b in KS[i:]]
    items = []
    bounds = {}
    # ---- S
    sdepth = {'base': 5 if thorough else 4, 'wide': 4 if thorough else 3}
    for aname in ('base', 'wide'):
        n = len(seq_alphabet(aname))
        plen = 2 if thorough else 1
        for ka, kb in kpairs:
            for prefix in itertools.product(range(n), repeat=plen):
                items.append(('S', ka, kb, aname, sdepth[aname], prefix))
    bounds['S'] = {'k_pairs(unordered; alphabets are symmetric under A<->B)': kpairs,
                   'base_alphabet': [list(o) for o in seq_alphabet('base')], 'base_depth': sdepth['base'],
                   'wide_alphabet': [list(o) for o in seq_alphabet('wide')], 'wide_depth': sdepth['wide'],
                   'records': SEQ_RECORDS,
                   'prefixes_to_judge(=histories_judged when no operation raises)':
                       sum(len(kpairs) * len(seq_alphabet(a)) ** d for a in ('base', 'wide') for d in range(1, sdepth[a] + 1))}
    # ---- F
    fh = [[]] + _singles(allx, DIMS, yall, IDS)
    if thorough:
        fh += _pairs(XKINDS, yall, IDS) + _pairs(POPKINDS, yall, IDS)
        fh += _words(LONG, (3,))
    else:
        fh += _pairs(['list', 'ndarray'], ['float', 'npfloat', 'ndarray', 'nan'], IDS)
        fh += _pairs(['poplist'], ['float', 'list', 'ndarray'], [None, 7])
        fh += _words(LONG[:4], (3,))
    for ch in _chunks(fh, 40):
        items.append(('F', ch, KS))
    items.append(('W',))
    bounds['F'] = {'histories': len(fh), 'k': KS, 'writers': WRITERS,
                   'readers': ['read_raw_file', 'read_import', 'read_history', 'read_support_file', 'read_converge_file'],
                   'rewrite_histories': 'write m1; read; overwrite with m2; read - 4x4 monitors, k in (None,2), 3 writers, 3 readers'}
    # ---- L
    configs = [(k, interval, all_) for k in KS for interval in (1, 2) for all_ in (True, False)]
    lh = [[]] + _singles(allx, DIMS, yall, IDS)
    if thorough:
        lh += _pairs(XKINDS, yall, IDS) + _pairs(POPKINDS, yall, IDS)
        lh += _words(LONG, (3, 4, 5))
    else:
        lh += _pairs(['list', 'ndarray'], YKINDS, IDS) + _pairs(['poplist'], YKINDS, IDS)
        lh += _words(LONG, (3, 4))
    for ch in _chunks(lh, 60):
        items.append(('L', ch, configs))
    bounds['L'] = {'histories': len(lh), 'configs(k,interval,all)': configs}
    # ---- R
    rh = [[]] + _singles(allx, DIMS, yall, IDS)
    rh += _pairs(allx, yall, IDS, dims=(2, 3))
    rh += _words(LONG + [['poplist', 3, 0, 'vecspecial', 0], ['tuple', 1, 2, 'ninf', 7]], (3, 4) if thorough else (3,))
    for ch in _chunks(rh, 1500):
        items.append(('R', ch, KS))
    bounds['R'] = {'histories': len(rh), 'k': KS}
    # ---- P
    items.append(('P', KS, not thorough))
    bounds['P'] = {'records': 'n = 0..%d copies-in-sequence of each record kind of S (homogeneous history)' % (3 if not thorough else 4), 'k': KS,
                   'indices': 'every int list of length <= 2 over [-n, n], the same as int arrays, every boolean mask of length n as list and as array'}
    seen = set()
    for n, it in enumerate(items):
        items[n] = tuple(it) + (it[0] not in seen,)
        seen.add(it[0])
    bounds['values'] = {'x_kinds': allx, 'dims': DIMS, 'x_patterns': [[repr(v) for v in p] for p in XPAT],
                        'y_kinds': yall, 'ids': IDS}
    return items, bounds


# =============================================================== P: list / array indices
def pick_indices(n):
    """every list-like index of a monitor with n records: int lists of length <= 2 over [-n, n] (n is out of range),
    the same as an int64 array, and every boolean mask of length n as a list and as an array"""
    import numpy as np
    out = [('ints', [])]
    rng = list(range(-n, n + 1))
    for i in rng:
        out.append(('ints', [i]))
        for j in rng:
            out.append(('ints', [i, j]))
    for kind, y in list(out):
        out.append(('intarray', np.array(y, dtype=int)))
    for mask in itertools.product((False, True), repeat=n):
        if n:
            out.append(('boolmask', list(mask)))
            out.append(('boolarray', np.array(mask, dtype=bool)))
    return out


def shard_pick(item):
    """m[y] for y a list / ndarray: numpy's reading of y on the list of records (integers select positions, a boolean mask of
    the monitor's length selects where True), a NEW monitor with the same k, the source unchanged; an out-of-range integer
    raises IndexError.  Homogeneous histories only (numpy cannot index a ragged parameter history: not judged)."""
    T = Tally()
    for r in range(len(SEQ_RECORDS)):
        for k in item[1]:
            for n in range(0, 4 if item[2] else 5):
                m, ref = new_monitor(k), RefMonitor()
                for pos in range(n):
                    x, y, i, px, py, ck = _seq_record(r, pos)
                    m(x, y, i)
                    ref.record_plain(px, py, i, ck)
                for ikind, y in pick_indices(n):
                    T.count('traces'); T.count('transitions')
                    ylist = [v for v in (y.tolist() if hasattr(y, 'tolist') else y)]
                    if ikind.startswith('bool'):
                        want = RefMonitor([rec for rec, b in zip(ref.r, ylist) if b])
                    elif any(not -n <= v < n for v in ylist):
                        want = IndexError
                    else:
                        want = RefMonitor([ref.r[v] for v in ylist])
                    before = deep(m)
                    case = {'part': 'P', 'record': r, 'k': k, 'n': n, 'index_kind': ikind, 'index': [bool(v) if ikind.startswith('bool') else int(v) for v in ylist]}
                    sig = {'part': 'pick', 'index_kind': ikind, 'k': '*' if k is not None else None}
                    try:
                        res = m[y]
                    except IndexError:
                        res = IndexError
                    except Exception as e:
                        T.violate(dict(sig, clause='pick_raised'), case, 'Monitor(k=%r) with %d records: m[%r] raised %s: %s' % (k, n, y, type(e).__name__, e))
                        continue
                    msgs = []
                    if want is IndexError or res is IndexError:
                        T.hist('pick_outcome', 'IndexError' if want is res else 'mismatch')
                        if want is not res:
                            msgs.append(('pick', 'm[%r] -> %s, reference -> %s' % (y, 'IndexError' if res is IndexError else 'a monitor of %d records' % len(res),
                                                                                     'IndexError' if want is IndexError else '%d records' % len(want))))
                    else:
                        msgs += compare(res, want, 'm[%r]' % (y,))
                        if res is m:
                            msgs.append(('slice_identity', 'm[%r] returned the monitor itself' % (y,)))
                        elif res.k != m.k:
                            msgs.append(('slice_k', 'm[%r].k = %r, source k = %r' % (y, res.k, m.k)))
                        T.hist('pick_outcome', '%s:%s' % (ikind, 'nonempty' if len(want) else 'empty'))
                        if len(want):
                            T.nontriv(('P', r, k, n, ikind, tuple(case['index'])))
                        T.state(('P', want.key()))
                    msgs += [(c, t) for c, t in compare(m, ref, 'the source after m[%r]' % (y,))]
                    if deep(m) != before:
                        msgs.append(('argument_changed', 'm[%r] altered the source monitor' % (y,)))
                    for clause, text in msgs:
                        T.violate(dict(sig, clause=clause), case, 'Monitor(k=%r) of %d records (kind %d): %s' % (k, n, r, text))
    T.sample({'part': 'P', 'record': 0, 'k': None, 'n': 3, 'index_kind': 'boolmask', 'index': [True, False, True]})
    return T


MEM_CAP = 1536 << 20      # bytes of heap a shard may use: a monitor operation that does not
                          # terminate (e.g. extending a list while iterating over it) ends in a
                          # MemoryError, which is judged like any other exception


def _dispatch(item):
    import time, resource
    t0 = time.process_time()
    soft, hard = resource.getrlimit(resource.RLIMIT_DATA)
    try:
        resource.setrlimit(resource.RLIMIT_DATA, (MEM_CAP if hard == resource.RLIM_INFINITY else min(MEM_CAP, hard), hard))
    except (ValueError, OSError):
        pass
    try:
        T = {'S': shard_sequences, 'F': shard_files, 'W': shard_rewrite, 'L': shard_logs, 'R': shard_records, 'P': shard_pick}[item[0]](item)
    finally:
        resource.setrlimit(resource.RLIMIT_DATA, (soft, hard))
    T.count('cpu_ms_part_%s' % item[0], int(1000 * (time.process_time() - t0)))
    return T


def run(ctx):
    items, bounds = plan(ctx.thorough)
    only = os.environ.get('VERIF_C20_PARTS')       # developer aid, e.g. VERIF_C20_PARTS=L,F
    if only:
        keep = set(only.replace(',', ' ').split())
        items = [it for it in items if it[0] in keep]
        bounds = dict((k, v) for k, v in bounds.items() if k in keep or k == 'values')
        ctx.cap('VERIF_C20_PARTS=%s: only these parts were run' % only)
    ctx.bounds = bounds
    ctx.rule = ("R: every history of the stated record alphabet (all single records, all ordered pairs, words over a 6-8 record "
                "alphabet) x every k, compared with the list-of-tuples reference after every call; "
                "S: every operation sequence of exactly the stated depth (hence every shorter one as a prefix) over the stated "
                "alphabet for every unordered pair {kA,kB}; every prefix is judged exactly once (by the lexicographically first "
                "path below it), non-trivial = distinct (kA, kB, canonical state of both monitors before, operation) where the "
                "operation recorded something, combined with a non-empty operand or returned a non-empty result; L/F: every history x every configuration is written and read back by every reader, "
                "non-trivial = at least one record. states = distinct canonical reference states / read-back outcomes.")
    ctx.assumptions = [
        "k restricted to None, 1, 2, -1 (scaling by a power of two is exact, so 'transparent' means bit-equal)",
        "extend/prepend with the monitor itself as argument is excluded (the statement's 'never alter the monitor passed' cannot hold; with k set it does not terminate)",
        "LoggingMonitor(interval=n) is read as 'calls 0, n, 2n, ... are written'; all=False as 'the first (best) member of x and of a sequence-valued y is written'",
        "histories written to files have one parameter shape (the support layout is a transpose of a rectangular trajectory)",
        "iterations of a log file are call numbers; iterations of monitors / param files are counted per id (munge._process_ids docstring)",
        "read_support_file on a support file and read_converge_file on a converge file have no documented layout: any pure axis permutation of the recorded trajectory is accepted and the one found is written to the histogram",
        "every param file gets a module name of its own and importlib.invalidate_caches() is called before a fresh read (Python's documented duty of whoever creates modules at run time); the history that overwrites one file name is judged separately (part W)",
    ]
    ctx.pmap(_dispatch, items)
    if ctx.tally.n.get('shards_aborted_after_MemoryError'):
        ctx.cap('%d sequence shard(s) stopped at an operation that exhausted memory (reported as a violation)'
                % ctx.tally.n['shards_aborted_after_MemoryError'])


def replay(case):
    part = case['part']
    k = case.get('k')
    out = []
    if part == 'P':
        T = shard_pick(('P', [k], False))
        out = [v['detail'] for v in T.violations.values()
               if all(v['case'].get(f) == case.get(f) for f in ('record', 'n', 'index_kind', 'index'))]
    elif part == 'R':
        out = [t for c, t in run_records(case['specs'], k)]
    elif part == 'S':
        ops = [tuple(o) for o in case['ops']]
        out = ['step %d %s: %s' % (n, list(op), t) for n, op, c, t in run_sequence(case['kA'], case['kB'], ops, 0)]
    else:
        tmp = tempfile.mkdtemp(prefix='c20replay_')
        try:
            if part == 'L':
                out = [t for c, t in run_log(case['specs'], k, case['interval'], case['all'], tmp, 'replay.txt')[0]]
            elif part == 'F':
                out = [t for w, r, c, t in run_files(case['specs'], k, tmp, [case['writer']])]
            elif part == 'W':
                out = [t for c, t in run_rewrite(case['specs1'], case['specs2'], k, case['writer'], case['reader'], tmp)]
        finally:
            shutil.rmtree(tmp, ignore_errors=True)
    return out
