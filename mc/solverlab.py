"""Solver laboratory: build real mystic solvers from JSON-able configurations,
apply operations from a finite alphabet, observe everything from outside.

Everything that defines an execution is in (cfg, ops): the same pair always
rebuilds the same run (the random source is a private SeededRandom installed
for the duration of every operation).
"""
import copy, io, os, sys, math, contextlib
import numpy as np
from mc import env

INF = float('inf')


class Horizon(Exception):
    """evaluation horizon exceeded (runaway solve)"""


# ------------------------------------------------------------------ costs
def _sq(d): return d * d   # float multiplication overflows to inf instead of raising
def _sphere(x): return float(sum(_sq(v - 0.3 * (i + 1)) for i, v in enumerate(x)))
def _absum(x): return float(sum(abs(v - 0.7 + 0.5 * i) for i, v in enumerate(x)))
def _illq(x): return float(sum((10.0 ** (2 * i)) * _sq(v - 0.25 * (i + 1)) for i, v in enumerate(x)))
def _steps(x): return float(sum(_sq(float(math.floor(2 * v))) if abs(v) < 1e15 else INF for v in x))
def _infwall(x): return INF if x[0] > 1.5 else _sphere(x)
def _flat(x):
    # coordinate 0 is ignored; the rest are pulled together
    return float(sum((v - 1.0) ** 2 for v in x[1:])) if len(x) > 1 else 0.0
def _rosen(x):
    return float(sum(100.0 * (x[i + 1] - x[i] ** 2) ** 2 + (1 - x[i]) ** 2 for i in range(len(x) - 1))) if len(x) > 1 else float((1 - x[0]) ** 2)
def _vec(x): return np.array([(v - 0.3 * (i + 1)) ** 2 for i, v in enumerate(x)] + [0.5])
def _vec1(x): return np.array([float(sum((v - 0.3 * (i + 1)) ** 2 for i, v in enumerate(x))) - 0.75])   # one component, may be negative

COSTS = {'sphere': _sphere, 'absum': _absum, 'illq': _illq, 'steps': _steps,
         'infwall': _infwall, 'flat': _flat, 'rosen': _rosen, 'vec': _vec, 'vec1': _vec1}


class Recorder(object):
    """the user's cost function: logs every call, enforces the horizon"""

    def __init__(self, name, horizon=20000):
        self.name = name
        self.tag = 'cost:' + name
        self.log = []       # (x tuple, value)
        self.horizon = horizon
        self.watch = None   # optional callable(x) invoked on every call

    def __call__(self, x):
        xt = tuple(float(v) for v in x)
        if len(self.log) >= self.horizon:
            raise Horizon('%d evaluations' % len(self.log))
        v = COSTS[self.name](xt)
        self.log.append((xt, v if not isinstance(v, np.ndarray) else tuple(v.tolist())))
        if self.watch is not None:
            self.watch(xt)
        return v

    def raw(self, x):
        return COSTS[self.name](tuple(float(v) for v in x))


# ------------------------------------------------------------------ constraints
class Con(object):
    """deterministic, idempotent constraint; pure or in-place"""
    KINDS = ('pin', 'clamp', 'round', 'tie', 'push', 'pin1')

    def __init__(self, kind, inplace=False):
        self.kind = kind
        self.inplace = inplace
        self.tag = 'con:%s:%s' % (kind, 'inplace' if inplace else 'pure')
        self.calls = 0

    def _map(self, x):
        k = self.kind
        if k == 'pin':
            x[0] = 0.5
        elif k == 'pin1':
            x[-1] = 1.25
        elif k == 'clamp':
            if x[0] > 0.75: x[0] = 0.75
        elif k == 'round':
            x[0] = float(np.round(x[0]))
        elif k == 'tie':
            if len(x) > 1: x[1] = 0.5 * x[0] + 0.25
            else: x[0] = min(x[0], 1.0)
        elif k == 'push':
            if len(x) > 1: x[1] = x[0] + 2.0
            else: x[0] = max(x[0], 2.5)     # idempotent in one dimension too
        return x

    def __call__(self, x):
        self.calls += 1
        if self.inplace:
            return self._map(x)
        if isinstance(x, np.ndarray):
            y = x.copy()
        else:
            y = list(x)
        return self._map(y)

    def holds(self, x):
        y = self._map(list(float(v) for v in x))
        return all(a == b for a, b in zip(y, x))


def symbolic_con():
    import mystic.symbolic as ms
    c = ms.generate_constraint(ms.generate_solvers(ms.simplify("x0 <= x1 + 1")))
    return c


# ------------------------------------------------------------------ penalties
class Pen(object):
    def __init__(self, kind):
        self.kind = kind
        self.tag = 'pen:' + kind
        if kind == 'quad':
            import mystic.penalty as mp
            self._p = mp.quadratic_inequality(_pen_cond, k=10)(_zero)
        elif kind == 'text':
            import mystic.symbolic as ms
            self._p = ms.generate_penalty(ms.generate_conditions("x0 <= 0.25"), k=10)

    def __call__(self, x):
        k = self.kind
        if k == 'ramp':
            # (the value must not depend on the container the solver hands over: python >= 3.12 sums exact floats with
            #  compensation but numpy scalars naively, a last-bit difference at three or more entries)
            return 10.0 * max(0.0, float(sum([float(v) for v in x])) - 1.0)
        if k == 'const':
            return 5.0
        return float(self._p(x))

def _pen_cond(x): return x[0] - 0.25
def _zero(x): return 0.0


def reducer_sum(y):
    return float(np.sum(y))
reducer_sum.tag = 'red:sum'
def reducer_max(y):
    return float(np.max(y))
reducer_max.tag = 'red:max'
def reducer_sumsq(y):
    return float(np.sum(np.square(y)))
reducer_sumsq.tag = 'red:sumsq'
def reducer_rms(y):
    return float(np.sqrt(np.mean(np.square(y))))
reducer_rms.tag = 'red:rms'
REDUCERS = {'sum': reducer_sum, 'max': reducer_max, 'sumsq': reducer_sumsq, 'rms': reducer_rms}
# reducers given in the default two-argument form (SetReducer(f), arraylike=False): folded over the components
def _max2(a, b): return a if a >= b else b
def _mul2(a, b): return a * b
def _first2(a, b): return a
REDUCERS2 = {'max2': _max2, 'mul2': _mul2, 'first2': _first2}
def _folded(f):
    def red(y):
        import functools
        return float(functools.reduce(f, [float(v) for v in np.asarray(y, dtype=float).ravel()]))
    return red
for _n, _f in REDUCERS2.items():
    REDUCERS[_n] = _folded(_f)
    REDUCERS[_n].tag = 'red:' + _n


def set_reducer(s, name):
    if name in REDUCERS2:
        s.SetReducer(REDUCERS2[name])                   # documented default: a function of two arguments
    else:
        s.SetReducer(REDUCERS[name] if name else None, arraylike=True)


# ------------------------------------------------------------------ boxes
def box_of(cfgbox, dim):
    """-> (lo list, hi list) from a symbol"""
    if cfgbox is None:
        return None
    name = cfgbox if isinstance(cfgbox, str) else cfgbox.get('name', 'unit')
    if name == 'unit':
        return [-1.0] * dim, [2.0] * dim
    if name == 'shift':
        return [0.25] * dim, [3.0] * dim
    if name == 'degen':
        return [0.5] + [-1.0] * (dim - 1), [0.5] + [2.0] * (dim - 1)
    if name == 'onesided':
        return [-1.0] + [-INF] * (dim - 1), [INF] + [2.0] * (dim - 1)
    if name == 'none_sided':
        return [-1.0] + [None] * (dim - 1), [None] + [2.0] * (dim - 1)
    if name == 'neg':
        return [-3.0] * dim, [-0.5] * dim
    if name == 'intbox':        # endpoints given as python ints
        return [0] * dim, [5] * dim
    if name == 'fracbox':       # strictly inside intbox, non-integer endpoints
        return [0.5] * dim, [4.5] * dim
    raise KeyError(name)


def effective_box(cfgbox, dim):
    b = box_of(cfgbox, dim)
    if b is None:
        return None
    lo = [(-1e3 if v is None else v) for v in b[0]]
    hi = [(1e3 if v is None else v) for v in b[1]]
    return lo, hi


def inbox(x, box):
    if box is None:
        return True
    lo, hi = box
    return all(l <= v <= h for v, l, h in zip(x, lo, hi))


# ------------------------------------------------------------------ terminations
def make_term(name):
    import mystic.termination as mt
    if name in (None, 'default'):
        return None
    if name == 'never':
        return mt.VTR(-1e300)
    if name == 'always':
        return mt.VTR(1e300)
    if name == 'cog':
        return mt.ChangeOverGeneration(1e-3, 2)
    if name == 'cog1':
        return mt.ChangeOverGeneration(1e-2, 1)
    if name == 'crt':
        return mt.CandidateRelativeTolerance(1e-4, 1e-4)
    if name == 'ncog':
        return mt.NormalizedChangeOverGeneration(1e-4, 2)
    if name == 'collapse_at':       # a run that collapses (parameters pinned) and continues, inside one Solve
        return mt.Or(mt.ChangeOverGeneration(1e-12, 25), mt.CollapseAt(None, tolerance=1e-2, generations=4))
    if name == 'collapse_as':
        return mt.Or(mt.ChangeOverGeneration(1e-12, 25), mt.CollapseAs(tolerance=1e-2, generations=4))
    raise KeyError(name)


def make_monitor(kind, tmpdir=None, label='m'):
    import mystic.monitors as mm
    if kind in (None, 'default'):
        return None
    if '*' in kind:             # 'Logging*-1': a monitor with a cost multiplier k
        kind, k = kind.split('*')
        m = make_monitor(kind, tmpdir, label)
        m.k = float(k) if '.' in k else int(k)
        return m
    if kind == 'Monitor':
        return mm.Monitor()
    if kind == 'Verbose':
        return mm.VerboseMonitor(1, 1)
    if kind == 'Logging':
        return mm.LoggingMonitor(1, filename=os.path.join(tmpdir or '/tmp', 'log_%s_%d.txt' % (label, os.getpid())), new=True)
    raise KeyError(kind)


class FalsyCallable(object):
    """a legal callback: callable, but - like an empty recorder list with __call__ - false in a boolean context"""

    def __init__(self, f):
        self.f = f

    def __call__(self, *a, **k):
        return self.f(*a, **k)

    def __len__(self):
        return 0


SOLVERS = ('NM', 'Powell', 'DE', 'DE2')


def new_solver(kind, dim, npop=4):
    from mystic.solvers import (NelderMeadSimplexSolver, PowellDirectionalSolver,
                                DifferentialEvolutionSolver, DifferentialEvolutionSolver2)
    if kind == 'NM':
        return NelderMeadSimplexSolver(dim)
    if kind == 'Powell':
        return PowellDirectionalSolver(dim)
    if kind == 'DE':
        return DifferentialEvolutionSolver(dim, npop)
    if kind == 'DE2':
        return DifferentialEvolutionSolver2(dim, npop)
    raise KeyError(kind)


STARTS = {1: [[0.8], [2.0], [3.0]], 2: [[0.8, -0.4], [2.0, 0.5], [3.0, -2.0]],
          3: [[0.8, -0.4, 1.1], [2.0, 0.5, -1.0], [3.0, -2.0, 0.0]]}


class Lab(object):
    """one live execution: a real solver plus everything the harness observes"""

    def __init__(self, cfg, tmpdir=None):
        self.cfg = cfg
        self.tmpdir = tmpdir
        dim = cfg.get('dim', 2)
        self.dim = dim
        self.rng = env.SeededRandom(cfg.get('seed', 0))
        self.cost = Recorder(cfg.get('cost', 'sphere'), cfg.get('horizon', 20000))
        self.cb_log = []          # (x tuple) per callback
        self.msgs = []            # return value of each Step
        self.objects = {}         # tag -> live object (constraints, penalties, monitors)
        self.stdout = io.StringIO()
        self.inner_steps = 0      # number of real _Step executions (iterations incl. the initial one)
        with self._env():
            self.solver = self._build()
        if cfg.get('instrument', True):
            self._instrument()
        if cfg.get('callback_kind') == 'falsy':
            self.callback = FalsyCallable(self.callback)    # a callable object whose truth value is False

    # .................................................. environment
    @contextlib.contextmanager
    def _env(self):
        old = sys.stdout
        sys.stdout = self.stdout
        try:
            with env.owned_random(self.rng):
                yield
        finally:
            sys.stdout = old
            self.stdout.seek(0); self.stdout.truncate(0)

    def _instrument(self):
        """count real iterations by wrapping the bound _Step on the instance
        (not used by checks that pickle or copy the solver)"""
        s = self.solver
        inner = s._Step
        self.iter_calls = []      # real cost calls made by each executed iteration
        self.iter_entry = []      # (generations, calls, exit flag) seen when each iteration began
        def counted(*a, **k):
            self.inner_steps += 1
            n0 = len(self.cost.log)
            self.iter_entry.append((int(s.generations), n0, bool(s._EARLYEXIT)))
            try:
                return inner(*a, **k)
            finally:
                self.iter_calls.append(len(self.cost.log) - n0)
        s._Step = counted
        self.collapse_marks = []  # len(energy_history) at each Collapse() that applied something
        collapse = s.Collapse
        def marked(*a, **k):
            r = collapse(*a, **k)
            if r:
                self.collapse_marks.append(len(s.energy_history))
            return r
        s.Collapse = marked

    def callback(self, x):
        s = self.solver
        self.cb_log.append((tuple(float(v) for v in x),
                            tuple(float(v) for v in np.asarray(s.bestSolution, dtype=float).ravel()),
                            self.inner_steps))

    def con(self, sym):
        if sym is None:
            return None
        if sym == 'symbolic':
            return cached('symbolic_con', symbolic_con)
        kind, variant = (sym.split('/') + ['pure'])[:2]
        return Con(kind, variant == 'inplace')

    def pen(self, sym):
        return None if sym is None else cached(('livepen', sym), lambda: Pen(sym))

    # .................................................. construction
    def _build(self):
        cfg = self.cfg
        s = new_solver(cfg['solver'], self.dim, cfg.get('npop', 4))
        x0 = cfg.get('x0', STARTS[self.dim][0])
        if cfg.get('init', 'point') == 'point':
            s.SetInitialPoints(list(x0))
        elif cfg['init'] == 'random':
            lo, hi = effective_box(cfg.get('initbox', 'unit'), self.dim)
            s.SetRandomInitialPoints(list(lo), list(hi))
        for call in cfg.get('order', ('ranges', 'constraints', 'penalty', 'reducer', 'term', 'limits', 'evalmon', 'stepmon')):
            self._configure(s, call)
        s.SetObjective(self.cost)
        return s

    def _configure(self, s, call):
        cfg = self.cfg
        if call == 'ranges' and cfg.get('box') is not None:
            self.set_ranges(s, cfg['box'], cfg.get('tight'), cfg.get('clip'))
        elif call == 'constraints' and cfg.get('constraint') is not None:
            s.SetConstraints(self.con(cfg['constraint']))
        elif call == 'penalty' and cfg.get('penalty') is not None:
            s.SetPenalty(self.pen(cfg['penalty']))
        elif call == 'reducer' and cfg.get('reducer') is not None:
            set_reducer(s, cfg['reducer'])
        elif call == 'term' and cfg.get('term') not in (None, 'default'):
            s.SetTermination(make_term(cfg['term']))
        elif call == 'limits' and cfg.get('limits') is not None:
            g, e = cfg['limits'][:2]
            s.SetEvaluationLimits(g, e)
        elif call == 'evalmon' and cfg.get('evalmon') not in (None, 'default'):
            s.SetEvaluationMonitor(make_monitor(cfg['evalmon'], self.tmpdir, 'e'))
        elif call == 'stepmon' and cfg.get('stepmon') not in (None, 'default'):
            s.SetGenerationMonitor(make_monitor(cfg['stepmon'], self.tmpdir, 's'))

    def set_ranges(self, s, box, tight=None, clip=None):
        if box is False:
            kw = {}
            if tight is not None: kw['tight'] = tight
            if clip is not None: kw['clip'] = clip
            s.SetStrictRanges(False, False, **kw)
            return
        lo, hi = box_of(box, self.dim)
        kw = {}
        if tight is not None: kw['tight'] = tight
        if clip is not None: kw['clip'] = clip
        s.SetStrictRanges(list(lo), list(hi), **kw)

    # .................................................. operations
    def apply(self, op):
        """op is a list/tuple: [name, *args]; returns a short outcome token"""
        s = self.solver
        name = op[0]
        with self._env():
            if name == 'Step':
                msg = s.Step(callback=self.callback)
                self.msgs.append(msg)
                return msg
            if name in ('StepKw', 'SolveKw'):
                # settings handed over as keywords of Step / Solve (the documented alternative to the Set* methods)
                kw = {}
                for k, v in sorted(op[1].items()):
                    if k in ('EvaluationMonitor', 'StepMonitor'):
                        kw[k] = make_monitor(v, self.tmpdir, 'k%d' % len(self.msgs))
                    elif k == 'penalty':
                        kw[k] = self.pen(v)
                    elif k == 'constraints':
                        kw[k] = self.con(v)
                    else:
                        kw[k] = v
                if name == 'StepKw':
                    msg = s.Step(callback=self.callback, **kw)
                    self.msgs.append(msg)
                    return msg
                s.Solve(callback=self.callback, **kw)
                return 'solved'
            if name == 'Solve':
                kw = {}
                s.Solve(callback=self.callback, **kw)
                return 'solved'
            if name == 'SetStrictRanges':
                box = op[1]
                self.set_ranges(s, box, *(op[2:4] if len(op) > 2 else ()))
            elif name == 'SetConstraints':
                s.SetConstraints(self.con(op[1]))
            elif name == 'SetPenalty':
                s.SetPenalty(self.pen(op[1]))
            elif name == 'SetReducer':
                set_reducer(s, op[1])
            elif name == 'SetEvaluationLimits':
                g, e, new = op[1], op[2], (op[3] if len(op) > 3 else False)
                s.SetEvaluationLimits(g, e, new=new)
            elif name == 'SetTermination':
                s.SetTermination(make_term(op[1]))
            elif name == 'SetEvaluationMonitor':
                s.SetEvaluationMonitor(make_monitor(op[1], self.tmpdir, 'e%d' % len(self.msgs)), new=(op[2] if len(op) > 2 else False))
            elif name == 'SetGenerationMonitor':
                s.SetGenerationMonitor(make_monitor(op[1], self.tmpdir, 's%d' % len(self.msgs)), new=(op[2] if len(op) > 2 else False))
            elif name == 'request_exit':
                s._EARLYEXIT = True
            elif name == 'Finalize':
                s.Finalize()
            elif name == 'SetObjective':
                s.SetObjective(self.cost)
            else:
                raise KeyError(name)
        return None

    # .................................................. observation
    def snap(self):
        s = self.solver
        def vec(v):
            return tuple(float(a) for a in np.asarray(v, dtype=float).ravel())
        best = s.bestSolution
        em = s._evalmon
        return {
            'best': vec(best), 'bestE': _f(s.bestEnergy),
            'pop': tuple(vec(p) for p in s.population),
            'popE': tuple(_f(e) for e in s.popEnergy),
            'evals': int(s.evaluations), 'gens': int(s.generations),
            'ehist': tuple(_f(e) for e in s.energy_history),
            'nstep': len(s._stepmon),
            'stepx': tuple(vec(x) for x in s._stepmon._x),
            'stepy': tuple(_f(y) for y in s._stepmon._y),
            'evalx': tuple(vec(x) for x in getattr(em, '_x', ())) if len(em) else (),
            'evaly': tuple(_fy(y) for y in getattr(em, '_y', ())) if len(em) else (),
            'ncalls': len(self.cost.log), 'ncb': len(self.cb_log), 'inner': self.inner_steps,
            'maxiter': s._maxiter, 'maxfun': s._maxfun, 'live': bool(s._live),
            'pen': getattr(s._penalty, 'tag', 'default'), 'con': getattr(s._constraints, 'tag', getattr(s._constraints, '__name__', '?')),
            'strict': bool(s._useStrictRange), 'tight': s._useTightRange, 'clip': s._useClipRange,
            'exit': bool(s._EARLYEXIT),
        }


def _f(v):
    v = np.asarray(v, dtype=float)
    if v.ndim:
        v = v.ravel()
        return tuple(float(a) for a in v) if v.size != 1 else float(v[0])
    return float(v)


def _fy(v):
    try:
        return _f(v)
    except Exception:
        return repr(v)


def objective_of(cfg_state, x, cost_raw):
    """independent rebuild of the objective the statement describes:
    y = c(x); inf (no call) if y outside the box; reducer(cost(y)) + penalty(y)"""
    raise NotImplementedError


# ------------------------------------------------------------------ reference objective
_CACHE = {}


def cached(key, build):
    if key not in _CACHE:
        _CACHE[key] = build()
    return _CACHE[key]


def ref_con(sym):
    """a fresh, harness-owned instance of the constraint named by sym (pure variant)"""
    if sym is None:
        return None
    if sym == 'symbolic':
        c = cached('symbolic_con', symbolic_con)
        return lambda x: list(c(list(x)))
    kind = sym.split('/')[0]
    return Con(kind, False)


def ref_pen(sym):
    if sym is None:
        return None
    return cached(('pen', sym), lambda: Pen(sym))


class Settings(object):
    """harness-side record of the configuration in force, updated from ops;
    rebuilds the objective exactly as the property statement words it"""

    def __init__(self, cfg):
        self.dim = cfg.get('dim', 2)
        self.box = cfg.get('box')
        self.tight = cfg.get('tight')
        self.clip = cfg.get('clip')
        self.con = cfg.get('constraint')
        self.pen = cfg.get('penalty')
        self.red = cfg.get('reducer')

    def update(self, op):
        name = op[0]
        if name == 'SetStrictRanges':
            self.box = None if op[1] is False else op[1]
            self.tight = op[2] if len(op) > 2 else None
            self.clip = op[3] if len(op) > 3 else None
        elif name == 'SetConstraints':
            self.con = op[1]
        elif name == 'SetPenalty':
            self.pen = op[1]
        elif name == 'SetReducer':
            self.red = op[1]
        elif name in ('StepKw', 'SolveKw'):
            if 'penalty' in op[1]:
                self.pen = op[1]['penalty']
            if 'constraints' in op[1]:
                self.con = op[1]['constraints']

    # the box as numbers
    def limits(self):
        return effective_box(self.box, self.dim)

    def bounds_as_constraint(self):
        return self.box is not None and (self.tight is True or self.clip is not None)

    def C(self, x):
        """effective constraints: user constraint and (when tight/clip) the clipping
        bounds constraint, applied in turn until neither changes the point"""
        x = [float(v) for v in x]
        user = ref_con(self.con)
        lim = self.limits() if self.bounds_as_constraint() else None
        for _ in range(50):
            y = list(user(list(x))) if user is not None else list(x)
            y = [float(v) for v in y]
            if lim is not None:
                y = [min(max(v, l), h) for v, l, h in zip(y, lim[0], lim[1])]
            if y == x:
                return x
            x = y
        return x

    def satisfied(self, x):
        """does x satisfy the user constraint (c(x) == x)?"""
        user = ref_con(self.con)
        if user is None:
            return True
        y = [float(v) for v in user([float(v) for v in x])]
        return y == [float(v) for v in x]

    def raw_objective(self, x):
        """reducer(cost(x)) + penalty(x) at the literal point x (no constraints, no bounds)"""
        raise NotImplementedError

    def objective_at(self, x, costname):
        v = COSTS[costname](tuple(float(a) for a in x))
        if isinstance(v, np.ndarray):
            v = REDUCERS[self.red](v) if self.red else v
        p = ref_pen(self.pen)
        pv = float(p(list(x))) if p is not None else 0.0
        return _f(v + pv) if not isinstance(v, float) else v + pv

    def J(self, x, costname):
        y = self.C(x)
        lim = self.limits()
        if lim is not None and not inbox(y, lim):
            return INF
        return self.objective_at(y, costname)


def compatible(consym, box, dim):
    """does the constraint map the (effective) box into itself? checked on a grid incl. faces and far points"""
    if consym is None or box is None:
        return True
    c = ref_con(consym)
    lo, hi = effective_box(box, dim)
    import itertools
    axes = []
    for l, h in zip(lo, hi):
        l2 = max(l, -50.0); h2 = min(h, 50.0)
        axes.append(sorted({l2, h2, (l2 + h2) / 2.0, l2 + (h2 - l2) * 0.25, l2 + (h2 - l2) * 0.9}))
    for p in itertools.product(*axes):
        y = [float(v) for v in c(list(p))]
        if not inbox(y, (lo, hi)):
            return False
        if [float(v) for v in c(list(y))] != y:
            return False
    return True
