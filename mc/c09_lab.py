"""C09 laboratory: run real mystic ensemble solvers from JSON-able configurations
and observe, from outside, every cost call, which member made it, and every
member iteration (entry counters, truth of the termination condition).

Seams used (nothing in /repo is edited):
 * the cost function is a harness object (`SharedCost`) whose pickled form is a
   registry key, so every deep / dill copy the library makes of it resolves to
   the one live recorder: the call log is global even under a copying map;
 * the solver `map` is a harness object (`TMap`) that fixes the evaluation
   order, optionally dill-copies function / work item / result (stand-in for a
   process pool) and notes which work item is running;
 * `_Step` of the nested solver *classes* is wrapped for the duration of one
   execution to note the state in which every member iteration begins.
"""
import sys, io, contextlib, itertools
import numpy as np
from mc import env, solverlab
from mc.solverlab import COSTS, Con, Pen, box_of, effective_box, inbox, INF


class Horizon(Exception):
    pass


# ------------------------------------------------------------------ trace + cost
class Trace(object):
    def __init__(self):
        self.cur = None        # work item (member index) now running inside the map
        self.calls = []        # (member key, x tuple, raw value)
        self.iters = []        # one dict per member iteration
        self.spans = []        # (map call number, member index, first call, end call)
        self.map_sizes = []    # number of work items of every map call
        self.ensemble = None   # the ensemble solver found in the closure of the mapped function
        self.key = None        # member now iterating (set by the iteration probe)
        self.key_by_id = False # no TMap installed: members are told apart by solver.id
        self.starts = {}       # member index -> starting point handed to the mapped function (first map call)
        self.work = []         # per map call: ids of the solver objects handed out


_REG = {}
_NEXT = [0]


def _lookup(key):
    return _REG[key]


class SharedCost(object):
    """the user's cost function; identity survives pickling"""

    def __init__(self, name, trace, horizon=20000):
        self.name = name
        self.trace = trace
        self.horizon = horizon
        _NEXT[0] += 1
        self.key = _NEXT[0]
        _REG[self.key] = self

    def __call__(self, x):
        tr = self.trace
        if len(tr.calls) >= self.horizon:
            raise Horizon('%d evaluations' % len(tr.calls))
        xt = tuple(float(v) for v in x)
        v = COSTS[self.name](xt)
        tr.calls.append((tr.cur if tr.cur is not None else tr.key, xt, v))
        return v

    def __reduce__(self):
        return (_lookup, (self.key,))

    def release(self):
        _REG.pop(self.key, None)


# ------------------------------------------------------------------ map
class TMap(object):
    """map(f, *args): fixed evaluation order, optional dill copies, results in index order"""

    def __init__(self, trace, order='fwd', copy=False, inner=None):
        self.trace = trace
        self.order = order      # 'fwd' | 'rev' | explicit permutation (list)
        self.copy = copy
        self.inner = inner      # e.g. mystic.python_map.python_map: the library's own serial map does the iteration
        self.ncalls = 0
        self.max_calls = 800

    def __call__(self, f, *args, **kwds):
        tr = self.trace
        items = list(zip(*args))
        n = len(items)
        k = self.ncalls
        self.ncalls += 1
        if self.ncalls > getattr(tr, 'max_map_calls', self.max_calls):
            raise Horizon('%d map calls' % self.ncalls)
        tr.map_sizes.append(n)
        tr.work.append([id(it[0]) for it in items])
        for i, it in enumerate(items):
            if len(it) > 1 and it[1] is not None and i not in tr.starts:
                tr.starts[i] = tuple(float(v) for v in it[1])
        if tr.ensemble is None:
            from mystic.abstract_ensemble_solver import AbstractEnsembleSolver
            for c in (getattr(f, '__closure__', None) or ()):
                try:
                    v = c.cell_contents
                except ValueError:
                    continue
                if isinstance(v, AbstractEnsembleSolver):
                    tr.ensemble = v
            if tr.ensemble is None:     # the mapped function need not refer to the ensemble: look at the calling frames
                fr = sys._getframe(1)
                for _ in range(6):
                    if fr is None:
                        break
                    v = fr.f_locals.get('self')
                    if isinstance(v, AbstractEnsembleSolver):
                        tr.ensemble = v
                        break
                    fr = fr.f_back

        if self.copy:
            import dill
            g = dill.copy(f)       # the function travels once per map call, every work item and result on its own

        def run(i):
            tr.cur = i
            n0 = len(tr.calls)
            try:
                if self.copy:
                    a = dill.copy(items[i])
                    r = dill.copy(g(*a))
                else:
                    r = f(*items[i])
            finally:
                tr.cur = None
                tr.spans.append((k, i, n0, len(tr.calls)))
            return r

        if self.inner is not None:
            return self.inner(run, range(n), **kwds)
        if self.order == 'fwd':
            order = range(n)
        elif self.order == 'rev':
            order = range(n - 1, -1, -1)
        else:
            order = [i for i in self.order if i < n]
            order += [i for i in range(n) if i not in order]
        out = [None] * n
        for i in order:
            out[i] = run(i)
        return out

    __hash__ = object.__hash__

    def __eq__(self, other):
        return self is other


# ------------------------------------------------------------------ iteration probe
def nested_class(kind):
    import mystic.solvers as ms
    return {'NM': ms.NelderMeadSimplexSolver, 'Powell': ms.PowellDirectionalSolver,
            'DE': ms.DifferentialEvolutionSolver, 'DE2': ms.DifferentialEvolutionSolver2}[kind]


@contextlib.contextmanager
def probe_steps(kinds, trace):
    """note the state in which every member iteration begins (class-level wrap of _Step)"""
    saved = []

    def make(orig):
        def _Step(self, *a, **k):
            key = trace.cur
            if key is None and getattr(self, 'id', None) is not None and trace.key_by_id:
                key = ('id', self.id)
            if key is None:
                return orig(self, *a, **k)      # not a member (e.g. diffev inside fillpts)
            try:
                term = bool(self._termination(self)) if len(self._stepmon) else False
            except Exception:
                term = None
            ev = {'m': key, 'n0': len(trace.calls), 'n1': None, 'nstep': len(self._stepmon),
                  'term': term, 'evals': int(self._fcalls[0]),
                  'maxiter': self._maxiter, 'maxfun': self._maxfun, 'exit': bool(self._EARLYEXIT)}
            trace.iters.append(ev)
            old = trace.key
            trace.key = key
            try:
                return orig(self, *a, **k)
            finally:
                trace.key = old
                ev['n1'] = len(trace.calls)
        return _Step

    try:
        for kind in kinds:
            cls = nested_class(kind)
            orig = cls.__dict__['_Step']
            saved.append((cls, orig))
            cls._Step = make(orig)
        yield
    finally:
        for cls, orig in saved:
            cls._Step = orig


# ------------------------------------------------------------------ runaway guards
@contextlib.contextmanager
def guarded_default_map(trace, max_calls):
    """the library's default map (looked up when an ensemble is constructed) raises Horizon after too many
    calls: an ensemble loop that spins without ever calling the cost would otherwise never return"""
    import mystic.python_map as pm
    orig = pm.python_map
    n = [0]

    def python_map(func, *arglist, **kwds):
        if trace.cur is None and trace.key is None:     # the ensemble's own map call, not DifferentialEvolutionSolver2's inside a member
            n[0] += 1
        if n[0] > max_calls:
            raise Horizon('%d map calls' % n[0])
        return orig(func, *arglist, **kwds)
    pm.python_map = python_map
    try:
        yield
    finally:
        pm.python_map = orig


_GUARD = {'armed': False, 'seconds': 0, 'installed': False}


def _on_vtalrm(sig, frame):
    if _GUARD['armed']:
        raise Horizon('no return within %d CPU seconds' % _GUARD['seconds'])


@contextlib.contextmanager
def wall_guard(seconds):
    """last resort against a spin the other guards do not see (reported as clause 'runaway'); measured in
    CPU seconds of this process so that a loaded machine cannot trip it.  The handler is installed once per
    process and stays (disarmed) afterwards, so a late signal can never meet the default action"""
    import signal
    if not _GUARD['installed']:
        try:
            signal.signal(signal.SIGVTALRM, _on_vtalrm)
            _GUARD['installed'] = True
        except ValueError:      # not the main thread
            yield
            return
    _GUARD['seconds'] = seconds
    _GUARD['armed'] = True
    signal.setitimer(signal.ITIMER_VIRTUAL, seconds, 1.0)
    try:
        yield
    finally:
        _GUARD['armed'] = False
        signal.setitimer(signal.ITIMER_VIRTUAL, 0)


# ------------------------------------------------------------------ randomness
class HybridRandom(env.SeededRandom):
    """seeded everywhere, except numpy.random.rand whose every entry is a choice point"""

    def __init__(self, seed, chooser, unit=(0.0, 0.5, env.ONE_MINUS)):
        env.SeededRandom.__init__(self, seed)
        self.ch = chooser
        self.unit = tuple(unit)
        self.np_rand = self._rand

    def _rand(self, *shape):
        size = int(np.prod(shape)) if shape else 1
        vals = [self.unit[self.ch.choose(len(self.unit), 'np.rand')] for _ in range(size)]
        self.log.append(('np.rand', vals))
        return np.array(vals, dtype=float).reshape(shape) if shape else vals[0]


# ------------------------------------------------------------------ alphabets
class Ramp(object):
    """penalty 10*max(0, sum(x)-1); summed left to right on python floats so that the value does not depend on
    the container the solver hands over (builtin sum is compensated for exact floats only)"""
    kind = 'ramp'
    tag = 'pen:ramp'

    def __call__(self, x):
        t = 0.0
        for v in x:
            t = t + float(v)
        return 10.0 * max(0.0, t - 1.0)


def make_term(name):
    import mystic.termination as mt
    if name is None:
        return None
    if name == 'never':
        return mt.VTR(-1e300)
    if name == 'vtr':
        return mt.VTR(0.0625)
    if name == 'vtr10':
        return mt.VTR(10.0)
    if name == 'cog1':
        return mt.ChangeOverGeneration(0.015625, 1)
    if name == 'cog2':
        return mt.ChangeOverGeneration(0.001, 2)
    raise KeyError(name)


def default_limits(kind, dim, npop=4):
    """the nested solver's documented defaults when no limit is given"""
    if kind == 'NM':
        return dim * 200, dim * 200
    if kind == 'Powell':
        return dim * 1000, dim * 1000
    return dim * npop * 10, dim * npop * 1000


def ens_dim(cfg):
    if cfg['ens'] == 'lattice' and not isinstance(cfg['nbins'], int):
        return len(cfg['nbins'])
    return cfg['dim']


def requested_members(cfg):
    if cfg['ens'] == 'lattice':
        nb = cfg['nbins']
        return int(nb) if isinstance(nb, int) else int(np.prod(nb))
    return int(cfg['npts'])


def new_ensemble(cfg):
    import mystic.solvers as ms
    dim = ens_dim(cfg)
    if cfg['ens'] == 'lattice':
        nb = cfg['nbins']
        return ms.LatticeSolver(dim, nb if isinstance(nb, int) else tuple(nb))
    if cfg['ens'] == 'buckshot':
        return ms.BuckshotSolver(dim, cfg['npts'])
    if cfg['ens'] == 'sparsity':
        return ms.SparsitySolver(dim, cfg['npts'], cfg.get('rtol'))
    raise KeyError(cfg['ens'])


def make_map(sym, trace):
    """map symbol -> TMap or None (None: SetMapper is never called)"""
    if sym in (None, 'none'):
        return None
    if sym == 'default':
        from mystic.python_map import python_map
        return TMap(trace, inner=python_map)
    if sym == 'fwd':
        return TMap(trace, 'fwd')
    if sym == 'rev':
        return TMap(trace, 'rev')
    if sym == 'copy':
        return TMap(trace, 'fwd', copy=True)
    if sym == 'copyrev':
        return TMap(trace, 'rev', copy=True)
    if isinstance(sym, (list, tuple)) and sym[0] == 'perm':
        return TMap(trace, list(sym[1]), copy=bool(sym[2]) if len(sym) > 2 else False)
    raise KeyError(sym)


class Run(object):
    """everything observed in one execution"""
    pass


def execute(cfg, chooser=None, max_rounds=400):
    """run one configuration on the real code; never raises for library errors"""
    tr = Trace()
    tr.key_by_id = cfg.get('map') in (None, 'none')
    dim = ens_dim(cfg)
    cost = SharedCost(cfg.get('cost', 'sphere'), tr, cfg.get('horizon', 20000))
    seed = cfg.get('seed', 0)
    rng = HybridRandom(seed, chooser) if (cfg.get('scripted') and chooser is not None) else env.SeededRandom(seed)
    R = Run()
    R.cfg, R.trace, R.dim = cfg, tr, dim
    R.error = None
    R.rounds = []          # step loop: (message, calls so far) after every ensemble Step
    R.ret = None
    R.con = Con(*_consym(cfg['con'])) if cfg.get('con') else None
    R.pen = Ramp() if cfg.get('pen') else None
    R.term = make_term(cfg.get('term'))
    R.term_given = R.term is not None
    box = box_of(cfg.get('box'), dim) if cfg.get('box') else None
    R.box = box
    lim = cfg.get('limits')
    kinds = [cfg['nested']]
    # every round of a stepping ensemble costs each live member one iteration and at least one evaluation
    g_, e_ = (lim[0], lim[1]) if lim else (None, None)
    tr.max_map_calls = cfg.get('max_map_calls', g_ + 10 if g_ is not None else
                               (e_ + 25 if e_ is not None else default_limits(cfg['nested'], dim, cfg.get('npop', 4))[0] + 10))
    old = sys.stdout
    sys.stdout = io.StringIO()
    try:
        with env.owned_random(rng), probe_steps(kinds, tr), guarded_default_map(tr, tr.max_map_calls), \
                wall_guard(cfg.get('wall_guard', 60)):
            try:
                if cfg.get('api', 'class') == 'wrapper':
                    R.ret = _wrapper(cfg, cost, tr, R)
                    R.solver = tr.ensemble
                else:
                    R.solver = _class_api(cfg, cost, tr, R, max_rounds)
            except Horizon as e:
                R.error = ('Horizon', str(e), '')
            except Exception as e:
                import traceback
                R.error = (type(e).__name__, str(e)[:300], traceback.format_exc()[-900:])
    finally:
        sys.stdout = old
        cost.release()
    R.ndraws = len(getattr(rng, 'log', ()))
    return R


def range_mode(cfg):
    kw = {}
    if cfg.get('tight') is not None: kw['tight'] = cfg['tight']
    if cfg.get('clip') is not None: kw['clip'] = cfg['clip']
    return kw


def solo(cfg, x0, term, legacy_steps=0):
    """differential oracle: a stand-alone nested solver configured by hand with what the ensemble was given
    (start, box and range mode, constraint, penalty, limits, termination), run to completion on its own
    recorder -> (call sequence, best solution, best energy) or ('error', ...)"""
    import copy
    tr = Trace()
    tr.key = 'solo'
    dim = ens_dim(cfg)
    cost = SharedCost(cfg.get('cost', 'sphere'), tr, cfg.get('horizon', 20000))
    rng = env.SeededRandom(cfg.get('seed', 0) + 7919)
    old = sys.stdout
    sys.stdout = io.StringIO()
    try:
        with env.owned_random(rng), wall_guard(cfg.get('wall_guard', 60)):
            s = nested_class(cfg['nested'])(dim)
            s.SetInitialPoints(list(x0))
            if cfg.get('box'):
                lo, hi = box_of(cfg['box'], dim)
                s.SetStrictRanges(list(lo), list(hi), **range_mode(cfg))
            if cfg.get('con'):
                s.SetConstraints(Con(*_consym(cfg['con'])))
            if cfg.get('pen'):
                s.SetPenalty(Ramp())
            if cfg.get('limits') is not None:
                s.SetEvaluationLimits(cfg['limits'][0], cfg['limits'][1])
            s.SetTermination(copy.deepcopy(term))
            if legacy_steps:
                s.SetGenerationMonitor(preloaded(legacy_steps, cfg))
            s.Solve(cost)
        return ([(x, v) for k, x, v in tr.calls], tuple(float(v) for v in np.asarray(s.bestSolution).ravel()),
                float(np.asarray(s.bestEnergy).ravel()[0]))
    except Exception as e:
        return ('error', type(e).__name__, str(e)[:200])
    finally:
        sys.stdout = old
        cost.release()


def _consym(sym):
    kind, variant = (sym.split('/') + ['pure'])[:2]
    return kind, variant == 'inplace'


def _class_api(cfg, cost, tr, R, max_rounds):
    from mystic.monitors import Monitor
    s = new_ensemble(cfg)
    R.solver = s
    dim = R.dim
    nested = nested_class(cfg['nested'])
    if cfg['nested'] in ('DE', 'DE2'):
        s.SetNestedSolver(nested, NP=cfg.get('npop', 4))
    else:
        s.SetNestedSolver(nested)
    order = cfg.get('order', ('ranges', 'constraints', 'penalty', 'limits', 'term', 'evalmon', 'map'))
    for call in order:
        if call == 'ranges' and R.box is not None:
            s.SetStrictRanges(list(R.box[0]), list(R.box[1]), **range_mode(cfg))
        elif call == 'constraints' and R.con is not None:
            s.SetConstraints(R.con)
        elif call == 'penalty' and R.pen is not None:
            s.SetPenalty(R.pen)
        elif call == 'limits' and cfg.get('limits') is not None:
            s.SetEvaluationLimits(cfg['limits'][0], cfg['limits'][1])
        elif call == 'term' and R.term is not None:
            s.SetTermination(R.term)
        elif call == 'evalmon' and (cfg.get('evalmon') or cfg.get('em_preload')):
            s.SetEvaluationMonitor(preloaded(cfg.get('em_preload') or 0, cfg))
            if cfg.get('sm_preload'):
                s.SetGenerationMonitor(preloaded(cfg['sm_preload'], cfg))
        elif call == 'map':
            m = make_map(cfg.get('map'), tr)
            if m is not None:
                s.SetMapper(m)
    mode = cfg.get('mode', 'solve')
    _drive(s, cost, mode, tr, R, max_rounds)
    if cfg.get('twice'):
        # solved twice in a row: raise the limits (on the ensemble and on the members it already holds) and go on
        R.calls_first = len(tr.calls)
        g2, e2 = cfg['twice']
        tr.max_map_calls += (g2 + 10 if g2 is not None else e2 + 25)
        s.SetEvaluationLimits(g2, e2)
        for m in s._allSolvers:
            m.SetEvaluationLimits(g2, e2)
        _drive(s, None, mode, tr, R, max_rounds)
    return s


def _drive(s, cost, mode, tr, R, max_rounds):
    if mode == 'solve':
        s.Solve(cost)
    elif mode == 'stepsolve':
        s.Solve(cost, step=True)
    elif mode == 'steploop':
        if cost is not None:
            s.SetObjective(cost)
        for k in range(max(max_rounds, tr.max_map_calls + 5)):
            msg = s.Step()
            R.rounds.append((msg, len(tr.calls)))
            if msg:
                break
        else:
            raise Horizon('step loop did not stop within %d rounds' % max_rounds)
    else:
        raise KeyError(mode)


def preloaded(L, cfg):
    """a Monitor that already holds L records (legacy data handed to the ensemble) at points inside the box"""
    from mystic.monitors import Monitor
    m = Monitor()
    dim = ens_dim(cfg)
    lo, hi = box_of(cfg.get('box') or 'unit', dim)
    for f in (0.25, 0.5, 0.875)[:L]:
        m([l + f * (h - l) for l, h in zip(lo, hi)], 9.0 + f)
    return m


def _wrapper(cfg, cost, tr, R):
    import mystic.solvers as ms
    dim = R.dim
    kw = dict(full_output=1, disp=0, ftol=cfg.get('ftol', 0.015625), gtol=cfg.get('gtol', 2))
    if cfg.get('limits') is not None:
        kw['maxiter'], kw['maxfun'] = cfg['limits'][0], cfg['limits'][1]
    if R.box is not None:
        kw['bounds'] = list(zip(R.box[0], R.box[1]))
        if cfg.get('tight') is not None: kw['tightrange'] = cfg['tight']
        if cfg.get('clip') is not None: kw['cliprange'] = cfg['clip']
    if R.con is not None:
        kw['constraints'] = R.con
    if R.pen is not None:
        kw['penalty'] = R.pen
    if cfg.get('mode') == 'stepsolve':
        kw['step'] = True
    if cfg['nested'] != 'NM':
        kw['solver'] = nested_class(cfg['nested'])
    if cfg.get('retall'):
        kw['retall'] = 1
    if cfg.get('em_preload'):
        kw['evalmon'] = preloaded(cfg['em_preload'], cfg)
    if cfg.get('sm_preload'):
        kw['itermon'] = preloaded(cfg['sm_preload'], cfg)
    m = make_map(cfg.get('map'), tr)
    if m is not None:
        kw['map'] = m
    import mystic.termination as mt
    R.term = mt.NormalizedChangeOverGeneration(kw['ftol'], kw['gtol'])
    if cfg['ens'] == 'lattice':
        nb = cfg['nbins']
        return ms.lattice(cost, dim, nb if isinstance(nb, int) else tuple(nb), **kw)
    if cfg['ens'] == 'buckshot':
        return ms.buckshot(cost, dim, cfg['npts'], **kw)
    return ms.sparsity(cost, dim, cfg['npts'], **kw)
