"""C07 helper - baton scheduler: a map whose work items run in real threads,
one at a time, with hand-offs at member-solver ``Step`` boundaries.

``BatonMap(chooser, max_preempt)`` is a drop-in ``map``: every work item of a
call gets its own ``threading.Thread``; a thread only runs while it holds the
baton and gives it back (a) when it is about to enter ``AbstractSolver.Step``
(the wrapper installed by ``step_boundaries()``) and (b) when it finishes.
The explorer (a ``mc.tree.Chooser``) decides who runs next:

* the thread that ran last and is not finished is option 0 (continue);
  switching away from it costs one *preemption* and is only offered while the
  per-execution budget ``max_preempt`` is not used up;
* when the last thread has finished, every unfinished thread is offered and
  the switch is free (so all start / completion orders are always explored).

Nothing in the library can block, so an unfinished thread is always enabled;
a thread that does not hand the baton back within ``timeout`` seconds is
reported as ``Deadlock`` and more than ``horizon`` hand-offs as
``HorizonExceeded`` - both are harness faults, never verdicts.  Results are
returned in index order (the ``map`` contract); an exception raised by a work
item is re-raised in the caller after all other items have finished.
"""
import threading, contextlib

_local = threading.local()


class HarnessFault(Exception):
    pass


class Deadlock(HarnessFault):
    """no thread handed the baton back: nothing is enabled"""


class HorizonExceeded(HarnessFault):
    """more hand-offs than the step horizon"""


class _Abort(BaseException):
    """raised inside workers to unwind them when an execution is abandoned"""


class BatonMap(object):
    def __init__(self, chooser, max_preempt=1, horizon=600, timeout=60.0, label='baton'):
        self.ch = chooser
        self.max_preempt = max_preempt
        self.horizon = horizon
        self.timeout = timeout
        self.label = label
        self.calls = 0          # map calls served
        self.handoffs = 0       # baton hand-offs in this execution
        self.preemptions = 0    # switches away from a runnable thread
        self.choice_points = 0  # scheduling decisions with more than one option
        self.schedule = []      # thread index given the baton at every hand-off
        self.max_concurrent = 0  # largest number of started-and-unfinished work items seen

    # the mystic solvers compare maps with == / != against python_map
    def __eq__(self, other):
        return self is other

    def __ne__(self, other):
        return self is not other

    __hash__ = object.__hash__

    def __call__(self, f, *args, **kwds):
        items = list(zip(*args))
        self.calls += 1
        return _Run(self, f, items).execute()


class _Run(object):
    """one map call"""

    def __init__(self, owner, f, items):
        self.o = owner
        self.f = f
        self.items = items
        n = len(items)
        self.n = n
        self.sems = [threading.Semaphore(0) for _ in range(n)]
        self.main = threading.Semaphore(0)
        self.done = [False] * n
        self.started = [False] * n
        self.out = [None] * n
        self.err = [None] * n
        self.abort = False

    # ------------------------------------------------------------ worker side
    def _worker(self, i):
        _local.run = self
        _local.index = i
        self.sems[i].acquire()
        try:
            if self.abort:
                raise _Abort()
            self.started[i] = True
            self.out[i] = self.f(*self.items[i])
        except _Abort:
            pass
        except BaseException as e:      # the library's exception: delivered to the caller of the map
            self.err[i] = e
        finally:
            self.done[i] = True
            _local.run = None
            self.main.release()

    def yield_point(self, i):
        """called by worker i (holding the baton) at a Step boundary"""
        self.main.release()
        self.sems[i].acquire()
        if self.abort:
            raise _Abort()

    # ------------------------------------------------------------ scheduler side
    def _give(self, i):
        self.o.handoffs += 1
        self.o.schedule.append(i)
        self.sems[i].release()
        if not self.main.acquire(timeout=self.o.timeout):
            self.abort = True
            raise Deadlock('work item %d did not hand the baton back within %.0f s (hand-off %d)'
                           % (i, self.o.timeout, self.o.handoffs))

    def _unwind(self):
        self.abort = True
        for i in range(self.n):
            if not self.done[i]:
                self.sems[i].release()
                self.main.acquire(timeout=self.o.timeout)

    def execute(self):
        o = self.o
        threads = [threading.Thread(target=self._worker, args=(i,), daemon=True) for i in range(self.n)]
        for t in threads:
            t.start()
        current = None
        while True:
            enabled = [i for i in range(self.n) if not self.done[i]]
            if not enabled:
                break
            if o.handoffs >= o.horizon:
                self._unwind()
                raise HorizonExceeded('%d hand-offs' % o.handoffs)
            if current is not None and not self.done[current]:
                opts = [current]
                if o.preemptions < o.max_preempt:
                    opts += [j for j in enabled if j != current]
            else:
                opts = enabled
            if len(opts) > 1:
                o.choice_points += 1
                nxt = opts[o.ch.choose(len(opts), o.label)]
            else:
                nxt = opts[0]
            if current is not None and not self.done[current] and nxt != current:
                o.preemptions += 1
            current = nxt
            self._give(nxt)
            live = sum(1 for i in range(self.n) if self.started[i] and not self.done[i])
            if live > o.max_concurrent:
                o.max_concurrent = live
        for t in threads:
            t.join(o.timeout)
        for e in self.err:
            if e is not None:
                raise e
        return self.out


@contextlib.contextmanager
def step_boundaries():
    """wrap AbstractSolver.Step: a worker thread hands the baton back before every member Step"""
    from mystic.abstract_solver import AbstractSolver
    orig = AbstractSolver.Step

    def Step(self, *a, **k):
        run = getattr(_local, 'run', None)
        if run is not None:
            run.yield_point(_local.index)
        return orig(self, *a, **k)
    Step.__doc__ = orig.__doc__
    AbstractSolver.Step = Step
    try:
        yield
    finally:
        AbstractSolver.Step = orig
