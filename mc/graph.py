"""E1: exhaustive exploration of operation sequences on real solver objects.

A state is the history (cfg, ops) that reaches it; it is rebuilt on a fresh
object by replay (live solvers do not copy - copying is itself under test in
C06).  Every root-to-leaf path of the op tree of the given depth is executed
once and the oracle is consulted after *every* operation, so every history of
length <= depth is judged.  Snapshots are hashed into a canonical-state set.
"""
import itertools, traceback
from mc.runner import Tally, digest
from mc import solverlab


def all_paths(nops, depth, prefix=()):
    for tail in itertools.product(range(nops), repeat=depth - len(prefix)):
        yield tuple(prefix) + tail


class Oracle(object):
    """per-execution reference model + invariants; subclass per property"""
    prop = '?'

    def __init__(self, lab):
        self.lab = lab

    def after(self, op, outcome, before, after):
        """return list of (sig dict, detail str)"""
        return []


def run_history(cfg, ops, oracle_cls, T, tmpdir=None, judged=None, keep_lab=False):
    """execute one op sequence, judge after every op.
    judged: optional set of already-judged prefixes (tuples) - skips re-reporting"""
    lab = solverlab.Lab(cfg, tmpdir)
    orc = oracle_cls(lab)
    before = lab.snap()
    T.state(('s', _canon(before)))
    done = []
    for op in ops:
        try:
            outcome = lab.apply(op)
        except solverlab.Horizon as e:
            outcome = ('HORIZON', str(e))
        except Exception as e:
            outcome = ('RAISED', type(e).__name__, str(e)[:200], traceback.format_exc()[-600:])
        done.append(op)
        after = lab.snap()
        T.count('transitions')
        T.state(('s', _canon(after)))
        key = repr(done)        # ops may carry dicts (keyword settings): use the literal text as the key
        fresh = judged is None or key not in judged
        if judged is not None:
            judged.add(key)
        if fresh:
            T.count('histories_judged')
            for sig, detail in orc.after(op, outcome, before, after):
                sig = dict(sig)
                sig.setdefault('solver', cfg['solver'])
                T.violate(sig, {'cfg': cfg, 'ops': [list(o) for o in done]},
                          '%s | solver=%s cfg=%s ops=%s' % (detail, cfg['solver'], _short(cfg), [list(o) for o in done]))
        else:
            orc.after(op, outcome, before, after)
        if isinstance(outcome, tuple) and outcome and outcome[0] in ('HORIZON', 'RAISED'):
            T.hist('abnormal', outcome[0] + ':' + (outcome[1] if outcome[0] == 'RAISED' else ''))
            break
        before = after
    T.count('traces')
    return (lab, orc) if keep_lab else None


def _canon(snap):
    return tuple(sorted((k, v) for k, v in snap.items()))


def _short(cfg):
    return {k: v for k, v in cfg.items() if k not in ('solver', 'horizon')}


def explore_ops(cfg, alphabet, depth, oracle_cls, T, prefix=(), tmpdir=None):
    """all op sequences of exactly `depth` ops with the given index prefix"""
    judged = set()
    for path in all_paths(len(alphabet), depth, prefix):
        ops = [alphabet[i] for i in path]
        run_history(cfg, ops, oracle_cls, T, tmpdir, judged)
    return T
