"""Owning the environment: randomness, maps, clock.

Nothing here changes /repo: entry points the library reaches through module
attributes are replaced for the duration of one execution and restored after.
"""
import itertools, contextlib, random as _random, math
import numpy as _np


class UnownedRandomness(Exception):
    """the library drew from an entry point the harness does not own"""


ONE_MINUS = 1.0 - 2.0 ** -53


def nth_permutation(n, idx):
    """the idx-th permutation of range(n) in the (lexicographic) order of itertools.permutations"""
    pool = list(range(n))
    out = []
    f = math.factorial(n)
    for k in range(n, 0, -1):
        f //= k
        q, idx = divmod(idx, f)
        out.append(pool.pop(q))
    return tuple(out)


class ScriptedRandom(object):
    """every draw is a numbered choice point answered by a tree.Chooser.

    alphabet: values in [0,1) used for random()/uniform()/rand() draws."""

    def __init__(self, chooser, unit=(0.0, 0.5, ONE_MINUS), log=None,
                 vector_draws='shared'):
        self.ch = chooser
        self.unit = tuple(unit)
        self.log = log if log is not None else []
        self.vector_draws = vector_draws  # 'shared': one answer per array draw; 'each'

    def _u(self, label):
        v = self.unit[self.ch.choose(len(self.unit), label)]
        return v

    # ---- stdlib random
    def random(self):
        v = self._u('random')
        self.log.append(('random', v))
        return v

    def uniform(self, a, b):
        u = self._u('uniform')
        self.log.append(('uniform', u))
        return a + (b - a) * u

    def randint(self, a, b):
        k = self.ch.choose(b - a + 1, 'randint')
        self.log.append(('randint', a + k))
        return a + k

    def randrange(self, start, stop=None, step=1):
        if stop is None:
            start, stop = 0, start
        opts = range(start, stop, step)
        v = opts[self.ch.choose(len(opts), 'randrange')]
        self.log.append(('randrange', v))
        return v

    def sample(self, population, k):
        population = list(population)
        n = len(population)
        total = math.perm(n, k)
        idx = self.ch.choose(total, 'sample')
        # decode idx into the idx-th ordered k-subset (lexicographic)
        pool = list(range(n))
        out = []
        rem = total
        for j in range(k):
            rem //= (n - j)
            q, idx = divmod(idx, rem)
            out.append(pool.pop(q))
        res = [population[i] for i in out]
        self.log.append(('sample', tuple(out)))
        return res

    def shuffle(self, x):
        n = len(x)
        idx = self.ch.choose(math.factorial(n), 'shuffle')
        perm = list(nth_permutation(n, idx))
        vals = [x[i] for i in perm]
        for i, v in enumerate(vals):
            x[i] = v
        self.log.append(('shuffle', tuple(perm)))

    def choice(self, seq):
        seq = list(seq)
        i = self.ch.choose(len(seq), 'choice')
        self.log.append(('choice', i))
        return seq[i]

    # ---- numpy.random
    def _arr(self, shape, label):
        if shape is None or shape == ():
            return self._u(label)
        if isinstance(shape, int):
            shape = (shape,)
        size = int(_np.prod(shape))
        if self.vector_draws == 'shared':
            u = self._u(label)
            return _np.full(shape, u, dtype=float)
        return _np.array([self._u(label) for _ in range(size)], dtype=float).reshape(shape)

    def np_rand(self, *shape):
        v = self._arr(shape if shape else None, 'np.rand')
        self.log.append(('np.rand', _np.asarray(v).tolist()))
        return v

    def np_random(self, size=None):
        return self.np_rand(*((size,) if isinstance(size, int) else (size or ())))

    def np_uniform(self, low=0.0, high=1.0, size=None):
        if size is None:
            shp = _np.broadcast(_np.asarray(low), _np.asarray(high)).shape
        else:
            shp = size
        u = self._arr(shp if shp != () else None, 'np.uniform')
        self.log.append(('np.uniform', _np.asarray(u).tolist()))
        return low + (_np.asarray(high) - low) * u

    def np_choice(self, a, size=None, replace=True, p=None):
        if isinstance(a, (int, _np.integer)):
            a = list(range(int(a)))
        a = list(a)
        if size is None:
            i = self.ch.choose(len(a), 'np.choice')
            self.log.append(('np.choice', i))
            return a[i]
        n = int(_np.prod(size))
        if not replace:
            raise UnownedRandomness('np.choice(replace=False)')
        out = [a[self.ch.choose(len(a), 'np.choice')] for _ in range(n)]
        self.log.append(('np.choice', tuple(out)))
        return _np.array(out).reshape(size)


class SeededRandom(object):
    """a private, seeded generator pair standing in for the global ones"""

    def __init__(self, seed):
        self.seed = seed
        self.r = _random.Random(seed)
        self.n = _np.random.RandomState(seed % (2 ** 32))
        self.log = []
        for name in ('random', 'uniform', 'randint', 'randrange', 'sample', 'shuffle', 'choice'):
            setattr(self, name, getattr(self.r, name))
        self.np_rand = self.n.rand
        self.np_random = self.n.random_sample
        self.np_uniform = self.n.uniform
        self.np_choice = self.n.choice

    def getstate(self):
        return (self.r.getstate(), self.n.get_state())

    def setstate(self, st):
        self.r.setstate(st[0])
        self.n.set_state(st[1])


def _unowned(name):
    def f(*a, **k):
        raise UnownedRandomness(name)
    return f


_STD = ('random', 'uniform', 'randint', 'randrange', 'sample', 'shuffle', 'choice')
_STD_UNOWNED = ('gauss', 'normalvariate', 'choices', 'triangular', 'betavariate',
                'expovariate', 'getrandbits', 'randbytes')
_NP = {'rand': 'np_rand', 'random': 'np_random', 'random_sample': 'np_random',
       'uniform': 'np_uniform', 'choice': 'np_choice'}
_NP_UNOWNED = ('randn', 'randint', 'normal', 'shuffle', 'permutation', 'multivariate_normal')


@contextlib.contextmanager
def owned_random(rng):
    """route stdlib random, numpy.random and the names mystic imported from
    them to ``rng`` (ScriptedRandom or SeededRandom)"""
    import mystic.constraints as mc
    saved = []

    def put(mod, name, val):
        saved.append((mod, name, getattr(mod, name)))
        setattr(mod, name, val)
    try:
        for name in _STD:
            put(_random, name, getattr(rng, name))
        for name in _STD_UNOWNED:
            if hasattr(_random, name):
                put(_random, name, _unowned('random.' + name))
        for name, attr in _NP.items():
            put(_np.random, name, getattr(rng, attr))
        for name in _NP_UNOWNED:
            put(_np.random, name, _unowned('numpy.random.' + name))
        put(mc, 'uniform', rng.np_uniform)
        put(mc, 'choice', rng.np_choice)
        put(mc, 'shuffle', rng.shuffle)
        yield rng
    finally:
        for mod, name, val in reversed(saved):
            setattr(mod, name, val)


class ScriptedMap(object):
    """map(f, *args) whose *evaluation order* is a choice point.

    Results are always returned in index order (the map contract).  With
    copy=True the function and each work item are dill-copied before the call
    and the result is copied back: the deterministic stand-in for a process
    pool."""

    def __init__(self, chooser, copy=False, label='map', orders=None):
        self.ch = chooser
        self.copy = copy
        self.label = label
        self.calls = 0
        self.orders = orders  # optional explicit list of permutations to choose from

    def __call__(self, f, *args, **kwds):
        items = list(zip(*args))
        n = len(items)
        if self.orders is not None:
            perms = [p for p in self.orders if len(p) == n] or [tuple(range(n))]
        else:
            perms = None
        if perms is None:
            idx = self.ch.choose(math.factorial(n), self.label)
            order = nth_permutation(n, idx)
        else:
            order = perms[self.ch.choose(len(perms), self.label)]
        self.calls += 1
        out = [None] * n
        if self.copy:
            import dill
        for i in order:
            if self.copy:
                g = dill.copy(f)
                a = dill.copy(items[i])
                out[i] = dill.copy(g(*a))
            else:
                out[i] = f(*items[i])
        return out

    def __eq__(self, other):
        return self is other

    def __ne__(self, other):
        return self is not other

    __hash__ = object.__hash__


class FrozenClock(object):
    """time.time / perf_counter / process_time under harness control"""

    def __init__(self, start=1000.0):
        self.now = start

    def __call__(self):
        return self.now

    def advance(self, dt):
        self.now += dt

    @contextlib.contextmanager
    def installed(self):
        import time
        saved = (time.time, time.perf_counter, time.process_time)
        time.time = time.perf_counter = time.process_time = self
        try:
            yield self
        finally:
            time.time, time.perf_counter, time.process_time = saved
