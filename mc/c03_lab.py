"""C03 extensions of the solver laboratory (owned by props/c03.py; mc/solverlab.py is not modified).

* Con3 / Sym3: the live constraint objects handed to the solver.  Same maps as solverlab.Con and
  solverlab.symbolic_con, but every application is counted and it is recorded whether the point handed
  in was changed (evidence that the constraint was *active*, which cannot be seen from the cost log).
  Sym3 adds a non-mutating ('pure') variant of the symbolic-generated constraint, which mutates its
  argument as generated.
* Lab3: solverlab.Lab whose con() builds those objects ('kind/pure', 'kind/inplace', 'symbolic/pure',
  'symbolic/inplace'; plain 'symbolic' is the generated function as is).
* run_history: mc.graph.run_history with the laboratory class as a parameter.
* 'window' constraint, 'low' box, Settings3: the alphabet of the 'ranges set twice' family (a box that is replaced
  by another one in the same mode; the constraint fits the final box and leaves the first one).
"""
import traceback
import numpy as np
from mc import solverlab, graph
from mc.solverlab import Lab, Con


def _floats(x):
    return [float(v) for v in x]


WINDOW = (0.5, 1.5)      # 'window': every coordinate clamped into this interval (inside 'unit', outside 'low' and 'neg')


def box_of3(cfgbox, dim):
    """solverlab.box_of plus the boxes of the 'ranges set twice' family"""
    if cfgbox == 'low':          # a proper sub-box of 'unit' = [-1,2]^d
        return [-1.0] * dim, [0.25] * dim
    return solverlab.box_of(cfgbox, dim)


class Settings3(solverlab.Settings):
    def limits(self):
        b = box_of3(self.box, self.dim)
        if b is None:
            return None
        return [(-1e3 if v is None else v) for v in b[0]], [(1e3 if v is None else v) for v in b[1]]


class Con3(Con):
    def _map(self, x):
        if self.kind == 'window':
            for i in range(len(x)):
                x[i] = min(max(x[i], WINDOW[0]), WINDOW[1])
            return x
        return Con._map(self, x)

    def __init__(self, kind, inplace=False):
        Con.__init__(self, kind, inplace)
        self.changed = 0      # applications that returned something different from their input
        self.aliased = 0      # applications that changed the caller's own object

    def __call__(self, x):
        before = _floats(x)
        y = Con.__call__(self, x)
        if _floats(y) != before:
            self.changed += 1
            if _floats(x) != before:
                self.aliased += 1
        return y


class Sym3(object):
    """generate_constraint(generate_solvers(simplify("x0 <= x1 + 1"))) - in place as generated, or on a copy"""

    def __init__(self, inplace=True):
        self.kind = 'symbolic'
        self.inplace = inplace
        self.tag = 'con:symbolic:%s' % ('inplace' if inplace else 'pure')
        self.f = solverlab.cached('symbolic_con', solverlab.symbolic_con)
        self.calls = 0
        self.changed = 0
        self.aliased = 0

    def __call__(self, x):
        self.calls += 1
        before = _floats(x)
        if self.inplace:
            y = self.f(x)
        else:
            y = self.f(x.copy() if isinstance(x, np.ndarray) else list(x))
        if _floats(y) != before:
            self.changed += 1
            if _floats(x) != before:
                self.aliased += 1
        return y


def split(sym):
    """'kind/variant' -> (kind, variant); 'symbolic' alone is the in-place function as generated"""
    if sym is None:
        return None, None
    parts = sym.split('/')
    kind = parts[0]
    variant = parts[1] if len(parts) > 1 else ('inplace' if kind == 'symbolic' else 'pure')
    return kind, variant


class Lab3(Lab):
    def set_ranges(self, s, box, tight=None, clip=None):
        if box is False:
            return Lab.set_ranges(self, s, box, tight, clip)
        lo, hi = box_of3(box, self.dim)
        kw = {}
        if tight is not None: kw['tight'] = tight
        if clip is not None: kw['clip'] = clip
        s.SetStrictRanges(list(lo), list(hi), **kw)

    def con(self, sym):
        if sym is None:
            return None
        kind, variant = split(sym)
        if kind == 'symbolic':
            obj = Sym3(variant == 'inplace')
        else:
            obj = Con3(kind, variant == 'inplace')
        self.__dict__.setdefault('live_cons', []).append(obj)
        return obj


def run_history(cfg, ops, oracle_cls, T, lab_cls=Lab3, tmpdir=None):
    """as mc.graph.run_history (judge after every op, hash every snapshot), for a given Lab class.
    returns (lab, oracle, number of ops executed)"""
    lab = lab_cls(cfg, tmpdir)
    orc = oracle_cls(lab)
    before = lab.snap()
    T.state(('s', graph._canon(before)))
    done = []
    for op in ops:
        try:
            outcome = lab.apply(op)
        except solverlab.Horizon as e:
            outcome = ('HORIZON', str(e))
        except Exception as e:
            outcome = ('RAISED', type(e).__name__, str(e)[:200], traceback.format_exc()[-600:])
        done.append(op)
        after = lab.snap()
        T.count('transitions')
        T.state(('s', graph._canon(after)))
        T.count('histories_judged')
        for sig, detail in orc.after(op, outcome, before, after):
            sig = dict(sig)
            sig.setdefault('solver', cfg['solver'])
            T.violate(sig, {'cfg': cfg, 'ops': [list(o) for o in done]},
                      '%s | solver=%s cfg=%s ops=%s' % (detail, cfg['solver'], graph._short(cfg), compact(done)))
        if isinstance(outcome, tuple) and outcome and outcome[0] in ('HORIZON', 'RAISED'):
            T.hist('abnormal', '%s:%s:%s' % (cfg['solver'], outcome[0], outcome[1] if outcome[0] == 'RAISED' else ''))
            break
        before = after
    T.count('traces')
    return lab, orc, len(done)


def compact(ops):
    """[['Step'],['Step'],['Solve']] -> 'Step*2, Solve'"""
    out, i = [], 0
    ops = [list(o) for o in ops]
    while i < len(ops):
        j = i
        while j < len(ops) and ops[j] == ops[i]:
            j += 1
        s = ops[i][0] if len(ops[i]) == 1 else '%s(%s)' % (ops[i][0], ','.join(repr(a) for a in ops[i][1:]))
        out.append(s if j - i == 1 else '%s*%d' % (s, j - i))
        i = j
    return ', '.join(out)
