"""Common runner: tallies, parallel sharding, evidence, replays, known findings."""
import os, sys, json, time, hashlib, traceback

VERIF = os.path.dirname(os.path.dirname(os.path.abspath(__file__)))
REPO = os.environ.get('MYSTIC_REPO', '/repo')
NPROC = int(os.environ.get('VERIF_NPROC', '16'))
MAX_REPORT = 12   # VIOLATION lines / replay files written per run


def digest(obj):
    """short stable digest of a JSON-able / repr-able object"""
    if not isinstance(obj, (bytes, str)):
        obj = repr(obj)
    if isinstance(obj, str):
        obj = obj.encode()
    return hashlib.blake2b(obj, digest_size=8).digest()


def jsonable(o):
    import numpy
    if isinstance(o, dict):
        return {str(k): jsonable(v) for k, v in o.items()}
    if isinstance(o, (list, tuple, set, frozenset)):
        return [jsonable(v) for v in o]
    if isinstance(o, numpy.ndarray):
        return jsonable(o.tolist())
    if isinstance(o, (numpy.floating,)):
        o = float(o)
    if isinstance(o, (numpy.integer,)):
        return int(o)
    if isinstance(o, (numpy.bool_,)):
        return bool(o)
    if isinstance(o, float):
        if o != o:
            return 'nan'
        if o in (float('inf'), float('-inf')):
            return 'inf' if o > 0 else '-inf'
        return o
    if isinstance(o, (int, str, bool)) or o is None:
        return o
    return repr(o)


class Tally(object):
    """what one shard of an exploration covered; mergeable"""

    def __init__(self):
        self.n = {}            # named counters
        self.h = {}            # named histograms
        self.nontrivial = set()  # 8-byte digests of distinct non-trivial cases
        self.stateset = set()  # 8-byte digests of distinct states (when tracked as a set)
        self.samples = []
        self.violations = {}   # sig key -> dict(sig, case, detail, count): first case per signature
        self.notes = []

    def count(self, name, k=1):
        self.n[name] = self.n.get(name, 0) + k

    def hist(self, name, key, k=1):
        d = self.h.setdefault(name, {})
        key = str(key)
        d[key] = d.get(key, 0) + k

    def nontriv(self, obj):
        self.nontrivial.add(digest(obj))

    def state(self, obj):
        self.stateset.add(digest(obj))

    def sample(self, obj, limit=3):
        if len(self.samples) < limit:
            self.samples.append(jsonable(obj))

    def violate(self, sig, case, detail):
        """sig: small dict of categorical fields identifying the failing
        (call site / clause / configuration); case: JSON-able replay input"""
        sig = jsonable(sig)
        key = json.dumps(sig, sort_keys=True)
        v = self.violations.get(key)
        if v is None:
            if len(self.violations) < 5000:
                self.violations[key] = {'sig': sig, 'case': jsonable(case),
                                        'detail': str(detail)[:2000], 'count': 1}
        else:
            v['count'] += 1
        self.count('violations_raw')

    def merge(self, other):
        for k, v in other.n.items():
            self.n[k] = self.n.get(k, 0) + v
        for name, d in other.h.items():
            mine = self.h.setdefault(name, {})
            for k, v in d.items():
                mine[k] = mine.get(k, 0) + v
        self.nontrivial |= other.nontrivial
        self.stateset |= other.stateset
        for s in other.samples:
            if len(self.samples) < 6:
                self.samples.append(s)
        for key, v in other.violations.items():
            mine = self.violations.get(key)
            if mine is None:
                self.violations[key] = v
            else:
                mine['count'] += v['count']
        self.notes.extend(other.notes)
        return self


def _call(packed):
    fn, item = packed
    try:
        return fn(item)
    except Exception:
        t = Tally()
        t.notes.append('HARNESS-FAULT in shard %r:\n%s' % (repr(item)[:300], traceback.format_exc()))
        t.count('harness_faults')
        return t


class Ctx(object):
    def __init__(self, prop, tier='quick', seed=0):
        self.prop = prop
        self.tier = tier
        self.seed = seed
        self.thorough = (tier == 'thorough')
        self.tally = Tally()
        self.t0 = time.time()
        self.bounds = {}
        self.caps = []
        self.exhaustive = True
        self.assumptions = []
        self.rule = ''
        self.explanation = ''

    # ------------------------------------------------------------ parallel
    def pmap(self, fn, items, chunksize=1, nproc=None):
        """run fn(item)->Tally over items on a fork pool, merge in item order"""
        items = list(items)
        nproc = min(nproc or NPROC, max(1, len(items)))
        if nproc == 1 or os.environ.get('VERIF_SERIAL'):
            for it in items:
                self.tally.merge(_call((fn, it)))
            return self.tally
        import multiprocessing as mp
        from concurrent.futures import ProcessPoolExecutor, as_completed
        from concurrent.futures.process import BrokenProcessPool
        ctx = mp.get_context('fork')
        # A worker that dies abruptly (the interpreter itself crashing, an OOM kill) must neither hang the run nor lose
        # its shard: the executor reports a broken pool, the shards without a result are run again on a fresh pool, and a
        # shard that kills its worker three times is a harness fault (exit 2), never silence.
        pending = list(enumerate(items))
        results, nxt, attempt = {}, 0, 0
        while pending:
            attempt += 1
            workers = nproc if attempt == 1 else max(1, min(nproc // 2, len(pending)))
            groups = [pending] if attempt < 3 else [[p] for p in pending]     # last attempt: one shard per pool
            pending = []
            for group in groups:
                with ProcessPoolExecutor(min(workers, len(group)), mp_context=ctx) as ex:
                    futs = {ex.submit(_call, (fn, it)): (i, it) for i, it in group}
                    for f in as_completed(futs):
                        i, it = futs[f]
                        try:
                            results[i] = f.result()
                        except BrokenProcessPool:
                            pending.append((i, it))
                            continue
                        while nxt in results:           # merge in item order
                            self.tally.merge(results.pop(nxt))
                            nxt += 1
            pending.sort()
            if pending:
                self.tally.hist('worker_process_died', 'attempt %d' % attempt, len(pending))
            if attempt >= 3 and pending:
                for i, it in pending:
                    t = Tally()
                    t.notes.append('HARNESS-FAULT: the worker process running shard %d died three times (%.200r)' % (i, it))
                    t.count('harness_faults')
                    results[i] = t
                pending = []
        for i in sorted(results):
            self.tally.merge(results[i])
        return self.tally

    def cap(self, text):
        self.caps.append(text)
        self.exhaustive = False

    def elapsed(self):
        return time.time() - self.t0


# ---------------------------------------------------------------- findings
def load_known():
    p = os.path.join(VERIF, 'known_findings.json')
    if not os.path.exists(p):
        return []
    with open(p) as f:
        return json.load(f).get('findings', [])


def _matches(entry, prop, sig):
    if entry.get('property') != prop or entry.get('status') != 'known':
        return False
    for k, v in entry.get('match', {}).items():
        s = sig.get(k)
        if isinstance(v, list):
            if s not in v:
                return False
        elif s != v:
            return False
    return True


def finish(ctx, replay_prefix=None):
    """classify violations, write replays + evidence, print lines, return exit code"""
    prop = ctx.prop
    T = ctx.tally
    known = load_known()
    faults = T.n.get('harness_faults', 0)
    for note in T.notes:
        sys.stderr.write(note + '\n')
    new, seen_known = [], {}
    for v in T.violations.values():
        hit = None
        for e in known:
            if _matches(e, prop, v['sig']):
                hit = e
                break
        if hit is not None:
            seen_known.setdefault(hit['id'], [hit, 0])[1] += v['count']
            continue
        new.append(v)
    for fid, (e, k) in sorted(seen_known.items()):
        print("KNOWN-FINDING: property=%s %s [%s; %d case(s) this run]" % (prop, e['what'], fid, k))
    rdir = os.path.join(VERIF, 'replays') if os.path.realpath(REPO) == '/repo' else os.path.join('/tmp', 'verif-scratch-replays')
    os.makedirs(rdir, exist_ok=True)
    for i, v in enumerate(new[:MAX_REPORT]):
        path = os.path.join(rdir, '%s-%s-%d.json' % (prop, ctx.tier, i))
        with open(path, 'w') as f:
            json.dump({'property': prop, 'sig': v['sig'], 'case': v['case'],
                       'detail': v['detail'], 'cases_with_this_signature': v['count']}, f, indent=1, sort_keys=True)
        print("VIOLATION property=%s replay=%s" % (prop, path))
        print("  [%d case(s)] sig=%s" % (v['count'], json.dumps(v['sig'], sort_keys=True)))
        print("  " + v['detail'].replace('\n', '\n  ')[:1500])
    if len(new) > MAX_REPORT:
        print("  (+%d further distinct violation signatures not written out)" % (len(new) - MAX_REPORT))
        for v in new[MAX_REPORT:MAX_REPORT + 150]:
            print("  [%d] sig=%s :: %s" % (v['count'], json.dumps(v['sig'], sort_keys=True), v['detail'][:260]))

    n = T.n
    states = n.get('states', 0) + len(T.stateset)
    cov = {
        'states': int(states),
        'transitions': int(n.get('transitions', 0)),
        'traces_validated_against_impl': int(n.get('traces', 0)),
        'evaluations': int(n.get('evaluations', n.get('traces', 0))),
        'distinct_nontrivial': int(len(T.nontrivial)),
        'rule': ctx.rule,
        'samples': T.samples or ['(none recorded)'],
        'exhaustive': bool(ctx.exhaustive and not faults),
        'bounds': jsonable(ctx.bounds),
        'caps_hit': ctx.caps,
        'counters': {k: int(v) for k, v in sorted(n.items())},
        'histograms': T.h,
        'known_findings_seen': {k: v[1] for k, v in seen_known.items()},
        'explanation': ctx.explanation,
    }
    ev = {
        'property_id': prop, 'tier': ctx.tier, 'seed': int(ctx.seed),
        'level': 'model_checking', 'coverage': cov,
        'assumptions': ctx.assumptions,
        'wall_s': round(ctx.elapsed(), 2),
        'violations': len(new),
    }
    edir = os.path.join(VERIF, 'evidence') if os.path.realpath(REPO) == '/repo' else os.path.join('/tmp', 'verif-scratch-evidence')
    os.makedirs(edir, exist_ok=True)
    with open(os.path.join(edir, '%s.json' % prop), 'w') as f:
        json.dump(ev, f, indent=1, sort_keys=True)
    print("%s tier=%s seed=%d states=%d transitions=%d traces=%d evaluations=%d nontrivial=%d exhaustive=%s wall=%.1fs violations=%d known=%d"
          % (prop, ctx.tier, ctx.seed, cov['states'], cov['transitions'],
             cov['traces_validated_against_impl'], cov['evaluations'],
             cov['distinct_nontrivial'], cov['exhaustive'], ev['wall_s'], len(new),
             sum(v[1] for v in seen_known.values())))
    if faults:
        print("HARNESS-FAULT: %d shard(s) raised inside the harness (see stderr)" % faults)
        if not new:
            return 2
        # violations were established on the executions that did complete: they stand (exit 1); the fault is
        # reported alongside and the run is marked non-exhaustive in the evidence
    if cov['states'] < 1 or cov['transitions'] < 1:
        print("HARNESS-FAULT: vacuous exploration")
        return 2
    return 1 if new else 0
