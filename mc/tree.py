"""Choice-tree explorer (engine core shared by E1/E2/E3).

An *execution* is one run of a deterministic function ``run(chooser)`` in which
every environment answer is obtained from ``chooser.choose(n, label)``.  The
explorer enumerates executions depth-first by replaying a recorded prefix of
answers and taking answer 0 ("the default") afterwards.  With ``bound=d`` only
executions with at most ``d`` non-default answers are visited (deviation
bounding); with ``bound=None`` the tree is enumerated completely.

Replaying a prefix that meets a different number of options (or another label)
at some choice point means the harness does not own all nondeterminism: that is
a hard error (``Diverged``), never a violation.
"""


class Diverged(Exception):
    """a replayed prefix did not see the same choice points (harness fault)"""


class Chooser(object):
    __slots__ = ('prefix', 'trace')

    def __init__(self, prefix=()):
        # prefix: list of (choice, n, label)
        self.prefix = list(prefix)
        self.trace = []

    def choose(self, n, label=None):
        if n <= 0:
            raise ValueError("choice point with no options (%r)" % (label,))
        i = len(self.trace)
        if i < len(self.prefix):
            c, n0, l0 = self.prefix[i]
            if n0 != n or l0 != label:
                raise Diverged("choice point %d: recorded (%r,%r) now (%r,%r)"
                               % (i, n0, l0, n, label))
        else:
            c = 0
        self.trace.append((c, n, label))
        return c

    def pick(self, options, label=None):
        options = list(options)
        return options[self.choose(len(options), label)]

    @property
    def choices(self):
        return [t[0] for t in self.trace]

    @property
    def deviations(self):
        return sum(1 for t in self.trace if t[0])


def explore(run, bound=None, max_executions=None, free=0, info=None):
    """yield (chooser, result) for every execution of run within the bound.

    Choice points with index < ``free`` are enumerated completely and do not
    count as deviations.  The generator's ``.capped`` information is returned through StopIteration
    value: True when max_executions stopped the enumeration early."""
    stack = [[]]
    count = 0
    while stack:
        prefix = stack.pop()
        ch = Chooser(prefix)
        res = run(ch)
        if len(ch.trace) < len(prefix):
            raise Diverged("execution ended after %d choice points, prefix has %d"
                           % (len(ch.trace), len(prefix)))
        yield ch, res
        count += 1
        if max_executions is not None and count >= max_executions and stack:
            if info is not None:
                info['capped'] = True
            return True
        tr = ch.trace
        dev = 0
        devs = []
        for j, t in enumerate(tr):
            devs.append(dev)
            if t[0] and j >= free:
                dev += 1
        # push alternatives for choice points beyond the prefix (deepest last
        # so that the DFS visits shallow deviations first when popping)
        new = []
        for i in range(len(prefix), len(tr)):
            c, n, label = tr[i]
            if bound is not None and i >= free and devs[i] + 1 > bound:
                continue
            for alt in range(1, n):
                new.append(list(tr[:i]) + [(alt, n, label)])
        new.reverse()
        stack.extend(new)
    return False


def count_tree(run, bound=None):
    n = 0
    for _ in explore(run, bound):
        n += 1
    return n


class ReplayChooser(Chooser):
    """replays a plain list of choices (from a replay file); strict about length"""

    def __init__(self, choices):
        Chooser.__init__(self, ())
        self._choices = list(choices)

    def choose(self, n, label=None):
        i = len(self.trace)
        if i < len(self._choices):
            c = self._choices[i]
            if c >= n:
                raise Diverged("replay choice %d out of range at point %d (%r)"
                               % (c, i, label))
        else:
            c = 0
        self.trace.append((c, n, label))
        return c
