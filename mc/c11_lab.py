"""C11 solver laboratory: solverlab.Lab plus collapse terminations, a Collapse
operation and a spy that records what every ``solver.Collapse()`` applied.

Nothing in mc/solverlab.py is edited: the extra cost is registered under a
``c11_`` name and the extra configuration / operations live in the subclass.
"""
import numpy as np
from mc import solverlab
from ref import c11_detect as ref

INF = float('inf')
MAX_COLLAPSE_CALLS = 60   # per execution; a collapse loop that never ends makes no cost calls, so it needs its own horizon


def _tied(x):
    # coordinates 0 and 1 are pulled together (steep) and along the valley to 1.0 (gentle); the rest to 0.25
    return float(4.0 * (x[0] - x[1]) ** 2 + 0.25 * (x[0] + x[1] - 2.0) ** 2 + sum((v - 0.25) ** 2 for v in x[2:]))


def _measure22(x):
    # a (2,2) product measure [w00,w01,p00,p01, w10,w11,p10,p11]: the two expectations are pulled to 0.5 and 0.25
    e0 = x[0] * x[2] + x[1] * x[3]
    e1 = x[4] * x[6] + x[5] * x[7]
    return float((e0 - 0.5) ** 2 + (e1 - 0.25) ** 2)


def _tied4(x):
    # every coordinate is pulled towards every other one (steep) and coordinate 0 gently to 1.0
    n = len(x)
    return float(sum((x[i] - x[j]) ** 2 for i in range(n) for j in range(i + 1, n)) + 0.25 * (x[0] - 1.0) ** 2)


solverlab.COSTS.setdefault('c11_tied', _tied)
solverlab.COSTS.setdefault('c11_tied4', _tied4)
solverlab.STARTS.setdefault(4, [[0.03125, 0.25, 0.375, 0.46875]])
solverlab.STARTS.setdefault(5, [[0.0, 0.0, 0.625, 1.25, 0.3125]])
solverlab.COSTS.setdefault('c11_measure22', _measure22)
solverlab.STARTS.setdefault(8, [[1.0, 0.0, 0.75, 0.25, 0.5, 0.5, 0.5, 0.5078125]])   # Lab._build evaluates this default eagerly


# ------------------------------------------------------------------ termination specs (JSON-able)
def build_term(spec):
    """['Or', s1, s2...] | ['And', ...] | ['When', s] | ['COG', tol, gens] | ['VTR', tol, target]
    | ['At', target, tol, gens, mask] | ['As', offset, tol, gens, mask]   masks: None or a list of ints / 2-lists
    | ['W', tol, gens, mmask] | ['P', tol, gens, mmask]    mmask: None or [format, [[measure, index-or-pair], ...]]"""
    import mystic.termination as mt
    kind = spec[0]
    if kind in ('Or', 'And'):
        return getattr(mt, kind)(*[build_term(s) for s in spec[1:]])
    if kind == 'When':
        return mt.When(build_term(spec[1]))
    if kind == 'COG':
        return mt.ChangeOverGeneration(spec[1], spec[2])
    if kind == 'VTR':
        return mt.VTR(spec[1], spec[2])
    if kind == 'At':
        return mt.CollapseAt(target=spec[1], tolerance=spec[2], generations=spec[3], mask=_mask(spec[4]))
    if kind == 'As':
        return mt.CollapseAs(offset=spec[1], tolerance=spec[2], generations=spec[3], mask=_mask(spec[4]))
    if kind == 'W':
        return mt.CollapseWeight(tolerance=spec[1], generations=spec[2], mask=_mmask(spec[3]))
    if kind == 'P':
        return mt.CollapsePosition(tolerance=spec[1], generations=spec[2], mask=_mmask(spec[3]))
    raise KeyError(kind)


def _mmask(m):
    if m is None:
        return None
    fmt, items = m
    items = [(a, tuple(b) if isinstance(b, (list, tuple)) else b) for a, b in items]
    if fmt == 'where' and not items:
        return ()
    return ref.build_mask(fmt, items)


def _mask(m):
    if m is None:
        return None
    return set(tuple(v) if isinstance(v, (list, tuple)) else v for v in m)


def leaves(spec):
    if spec[0] in ('Or', 'And', 'When'):
        for s in spec[1:]:
            for l in leaves(s):
                yield l
    else:
        yield spec


# ------------------------------------------------------------------ reading a termination from outside
def collapse_state(termination):
    """{identity: (kind, kwds-without-mask, canonical mask)} for every Collapse* leaf, read through the
    documented observation point mystic.termination.state(); identity = kind + the non-mask settings"""
    import mystic.termination as mt
    out = {}
    for doc, kw in mt.state(termination).items():
        kind = doc.split(' ', 1)[0]
        if not kind.startswith('Collapse'):
            continue
        kw = dict(kw)
        mask = kw.pop('mask', None)
        ident = (kind, repr(sorted(kw.items(), key=lambda t: t[0])))
        out[ident] = (kind, kw, canon_mask(kind, mask))
    return out


def skeleton(t):
    """the And/Or/When structure of a termination with every mask removed (state() flattens it)"""
    if isinstance(t, tuple):
        return (type(t).__name__, tuple(skeleton(c) for c in t))
    doc = t.__doc__ or ''
    if ' with ' not in doc:
        return ('?', doc[:40])
    kind, kwtext = doc.split(' with ', 1)
    try:
        kw = dict(eval(kwtext, {'np': np, 'inf': INF, 'nan': float('nan')}))
    except Exception:
        return (kind, kwtext)
    kw.pop('mask', None)
    return (kind, repr(sorted(kw.items(), key=lambda t: t[0])))


def other_state(termination):
    import mystic.termination as mt
    return sorted(doc for doc in mt.state(termination) if not doc.startswith('Collapse'))


def canon_mask(kind, mask):
    """set of ints (CollapseAt) / set of ints and sorted 2-tuples (CollapseAs) /
    set of (measure, index) (CollapseWeight) / set of (measure, frozenset pair) (CollapsePosition)"""
    if kind == 'CollapseWeight':
        return ref.canon_weight(mask)
    if kind == 'CollapsePosition':
        return ref.canon_position(mask)
    out = set()
    for m in (mask or ()):
        if hasattr(m, '__len__'):
            out.add(tuple(sorted(int(v) for v in m)))
        else:
            out.add(int(m))
    return out


def parse_message(msg):
    """the collapses a stop message reports: {identity: canonical set}; written here, not mystic.collapse.collapsed"""
    out = {}
    if not msg:
        return out
    for part in msg.split('; '):
        if not part.startswith('Collapse') or ' at ' not in part:
            continue
        head, tail = part.rsplit(' at ', 1)
        kind, kwtext = head.split(' with ', 1)
        ns = {'np': np, 'inf': INF, 'nan': float('nan')}
        kw = dict(eval(kwtext, ns))
        kw.pop('mask', None)
        ident = (kind, repr(sorted(kw.items(), key=lambda t: t[0])))
        out[ident] = canon_mask(kind, eval(tail, ns))
    return out


def only_collapse(msg):
    return bool(msg) and all(p.startswith('Collapse') for p in msg.split('; '))


class Event(object):
    """one call of solver.Collapse()"""
    __slots__ = ('nlog', 'before', 'after', 'others_before', 'others_after', 'returned', 'best', 'raised', 'gens', 'in_solve',
                 'shape_before', 'shape_after')


class Lab11(solverlab.Lab):
    """cfg adds: 'term11' (termination spec), 'limits'; ops add ['Collapse'], ['StepTo', k]"""

    def __init__(self, cfg, tmpdir=None):
        self.events = []
        self._in_solve = False
        solverlab.Lab.__init__(self, cfg, tmpdir)
        self._spy()

    def _configure(self, s, call):
        if call == 'term' and self.cfg.get('term11') is not None:
            s.SetTermination(build_term(self.cfg['term11']))
            return
        if call == 'stepmon' and self.cfg.get('npts') is not None:
            import mystic.monitors as mm
            s.SetGenerationMonitor(mm.Monitor(npts=tuple(self.cfg['npts'])))
            return
        solverlab.Lab._configure(self, s, call)

    def _spy(self):
        s = self.solver
        real = s.Collapse
        lab = self

        def spy(*a, **k):
            if len(lab.events) >= MAX_COLLAPSE_CALLS:
                raise solverlab.Horizon('%d Collapse() calls' % len(lab.events))
            ev = Event()
            ev.nlog = len(lab.cost.log)
            ev.gens = int(s.generations)
            ev.in_solve = lab._in_solve
            ev.before = collapse_state(s._termination)
            ev.others_before = other_state(s._termination)
            ev.shape_before = skeleton(s._termination)
            ev.shape_after = None
            ev.best = tuple(float(v) for v in np.asarray(s.bestSolution, dtype=float).ravel())
            ev.raised = None
            ev.returned = None
            ev.after = None
            ev.others_after = None
            lab.events.append(ev)
            try:
                r = real(*a, **k)
            except Exception as e:
                ev.raised = '%s: %s' % (type(e).__name__, str(e)[:200])
                raise
            ev.returned = r
            ev.after = collapse_state(s._termination)
            ev.others_after = other_state(s._termination)
            ev.shape_after = skeleton(s._termination)
            return r
        s.Collapse = spy

    def apply(self, op):
        s = self.solver
        name = op[0]
        if name == 'Collapse':
            with self._env():
                r = s.Collapse()
            return ('collapsed', bool(r))
        if name == 'StepTo':
            msg = None
            with self._env():
                for _ in range(op[1]):
                    msg = s.Step(callback=self.callback)
                    self.msgs.append(msg)
                    if msg:
                        break
            return msg
        if name == 'Solve':
            self._in_solve = True
            try:
                return solverlab.Lab.apply(self, op)
            finally:
                self._in_solve = False
        return solverlab.Lab.apply(self, op)
